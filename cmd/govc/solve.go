package main

// Script assembly and solver race (z3-new 5.1, z3 4.8.12, cvc5 1.0).

import (
	"bytes"
	"context"
	"fmt"
	"os"
	"os/exec"
	"strings"
	"sync"
	"time"
)

// script builds the standalone SMT-LIB script of one obligation. caseIdx selects the case of a
// split (-1: none). extra is appended before check-sat (e.g. an excuse predicate).
func (vc *FnVC) script(ob *Obligation, caseIdx int, extra string, getValues []string) string {
	var b strings.Builder
	b.WriteString("(set-option :produce-models true)\n(set-logic ALL)\n")
	for _, d := range vc.Ctx.decls {
		b.WriteString(d)
		b.WriteByte('\n')
	}
	for _, d := range vc.Ctx.strDecls() {
		b.WriteString(d)
		b.WriteByte('\n')
	}
	if len(vc.Ctx.globals) > 0 {
		for _, g := range vc.Ctx.globals {
			fmt.Fprintf(&b, "(assert (and (> %s 0) (< %s A0)))\n", g, g)
		}
		if len(vc.Ctx.globals) > 1 {
			fmt.Fprintf(&b, "(assert (distinct %s))\n", strings.Join(vc.Ctx.globals, " "))
		}
	}
	// noQuant: drop every quantified assumption (sound: a weaker context). Most safety and frame
	// obligations do not need them and are decided much faster without.
	noQuant := strings.HasPrefix(extra, ";NOQUANT")
	isQ := func(s string) bool {
		return strings.HasPrefix(s, "(assert") && (strings.Contains(s, "(forall ") || strings.Contains(s, "(exists "))
	}
	for i, it := range vc.Items {
		if i >= ob.Index {
			break
		}
		if noQuant && ((it.Ob != nil && isQ("(assert "+it.Ob.Goal)) || (it.Ob == nil && !it.Case && isQ(it.Text))) {
			continue
		}
		if it.Case {
			if caseIdx >= 0 && caseIdx < len(vc.Cases) {
				fmt.Fprintf(&b, "(assert %s) ; case %d\n", vc.Cases[caseIdx], caseIdx)
			}
			continue
		}
		if it.Ob != nil {
			if it.Ob.Canary || it.Ob.Cover {
				continue
			}
			if it.Ob.Finding {
				// a known finding is assumed only outside its excuse (never assume a known-false fact)
				if it.Ob.Excuse != "" {
					fmt.Fprintf(&b, "(assert (=> (not %s) %s)) ; %s (known finding)\n", it.Ob.Excuse, it.Ob.Goal, it.Ob.Name)
				}
				continue
			}
			fmt.Fprintf(&b, "(assert %s) ; %s\n", it.Ob.Goal, it.Ob.Name)
			continue
		}
		b.WriteString(it.Text)
		b.WriteByte('\n')
	}
	if extra != "" {
		b.WriteString(extra)
		b.WriteByte('\n')
	}
	fmt.Fprintf(&b, "; goal: %s  [%s] %s\n", ob.Name, ob.Pos, ob.Desc)
	fmt.Fprintf(&b, "(assert (not %s))\n(check-sat)\n", ob.Goal)
	if len(getValues) > 0 {
		fmt.Fprintf(&b, "(get-value (%s))\n", strings.Join(getValues, " "))
	}
	return b.String()
}

type Result struct {
	Ob     *Obligation
	VC     *FnVC
	Status string // unsat | sat | unknown | timeout | error
	Solver string
	Ms     int64
	Output string
	Agree  int // number of solvers that answered the winning status (thorough)
	OK     bool
	Case   int // failing case of a split, or -1
	Detail string
}

type solverSpec struct {
	name string
	args func(timeoutS int) []string
}

var solvers = []solverSpec{
	{"z3-new", func(t int) []string { return []string{"z3-new", "-in", "-smt2", fmt.Sprintf("-T:%d", t)} }},
	// same solver without AC-flattening of terms: flattening (bvadd a (bvadd b c)) into an n-ary sum
	// stops quantifier patterns of the form (select arr (bvadd off k)) from matching ground terms
	{"z3-new/noflat", func(t int) []string {
		return []string{"z3-new", "-in", "-smt2", fmt.Sprintf("-T:%d", t), "rewriter.flat=false"}
	}},
	{"z3", func(t int) []string { return []string{"z3", "-in", "-smt2", fmt.Sprintf("-T:%d", t)} }},
	{"cvc5", func(t int) []string {
		return []string{"cvc5", "--lang", "smt2", fmt.Sprintf("--tlimit=%d", t*1000)}
	}},
}

type solverAnswer struct {
	solver string
	status string
	out    string
	ms     int64
}

func runSolver(ctx context.Context, sp solverSpec, script string, timeoutS int) solverAnswer {
	args := sp.args(timeoutS)
	t0 := time.Now()
	cmd := exec.CommandContext(ctx, args[0], args[1:]...)
	cmd.Stdin = strings.NewReader(script)
	var out bytes.Buffer
	cmd.Stdout = &out
	cmd.Stderr = &out
	_ = cmd.Run()
	ms := time.Since(t0).Milliseconds()
	s := out.String()
	first := ""
	for _, ln := range strings.Split(s, "\n") { // skip warnings (e.g. about a rejected pattern)
		ln = strings.TrimSpace(ln)
		if ln == "" || strings.HasPrefix(ln, "WARNING") {
			continue
		}
		first = ln
		break
	}
	st := "error"
	switch {
	case first == "unsat" || first == "sat" || first == "unknown":
		st = first
	case strings.Contains(first, "timeout") || ctx.Err() != nil || strings.Contains(s, "interrupted"):
		st = "timeout"
	}
	return solverAnswer{sp.name, st, s, ms}
}

// race: first definite answer (sat/unsat) wins. z3-new gets a head start; with all=true every
// solver runs to completion (thorough tier: agreement).
func race(script string, timeoutS int, all bool) (win solverAnswer, answers []solverAnswer) {
	ctx, cancel := context.WithCancel(context.Background())
	defer cancel()
	ch := make(chan solverAnswer, len(solvers))
	started := 0
	start := func(i int) {
		started++
		go func() { ch <- runSolver(ctx, solvers[i], script, timeoutS) }()
	}
	// staggered start: most obligations are decided by the first solver within a fraction of a second,
	// and process start-up is what limits throughput on this machine
	start(0)
	var second <-chan time.Time = time.After(400 * time.Millisecond)
	var head <-chan time.Time = time.After(2500 * time.Millisecond)
	if all {
		start(1)
		start(2)
		start(3)
		second, head = nil, nil
	}
	got := 0
	for got < started || head != nil || second != nil {
		select {
		case a := <-ch:
			got++
			answers = append(answers, a)
			if (a.status == "sat" || a.status == "unsat") && !all {
				return a, answers
			}
			if got == started {
				if second != nil {
					second = nil
					start(1)
				} else if head != nil {
					head = nil
					start(2)
					start(3)
				}
			}
		case <-second:
			second = nil
			start(1)
		case <-head:
			head = nil
			if second != nil {
				second = nil
				start(1)
			}
			start(2)
			start(3)
		}
	}
	for _, a := range answers {
		if a.status == "sat" || a.status == "unsat" {
			win = a
			break
		}
	}
	if win.solver == "" {
		win = answers[0]
		for _, a := range answers {
			if a.status == "unknown" {
				win = a
			}
		}
	}
	return win, answers
}

func decide(script string, timeoutS int, all bool) (solverAnswer, int, string) {
	win, answers := race(script, timeoutS, all)
	agree := 0
	detail := ""
	for _, a := range answers {
		if a.status == win.status {
			agree++
		}
		if (a.status == "sat" && win.status == "unsat") || (a.status == "unsat" && win.status == "sat") {
			detail = "solvers disagree: " + a.solver + "=" + a.status + " " + win.solver + "=" + win.status
			win.status = "error"
		}
	}
	return win, agree, detail
}

// decideOb: quantifier-free context first (when the script has quantified assumptions at all),
// the full context only if that does not already prove the obligation.
func decideOb(vc *FnVC, ob *Obligation, k int, timeoutS int, all bool) (solverAnswer, int, string, string) {
	full := vc.script(ob, k, "", nil)
	if strings.Contains(full, "(forall ") || strings.Contains(full, "(exists ") {
		qf := vc.script(ob, k, ";NOQUANT", nil)
		if !(strings.Contains(qf, "(forall ") || strings.Contains(qf, "(exists ")) || true {
			t := timeoutS
			if t > 5 {
				t = 5
			}
			win, agree, detail := decide(qf, t, all)
			if win.status == "unsat" {
				win.solver += "(qf)"
				return win, agree, detail, qf
			}
		}
	}
	win, agree, detail := decide(full, timeoutS, all)
	return win, agree, detail, full
}

func (g *Global) solveOne(vc *FnVC, ob *Obligation, timeoutS int, thorough bool) *Result {
	expectSat := ob.Canary || ob.Cover
	r := &Result{Ob: ob, VC: vc, Case: -1}
	keep := func(script string, k int) {
		if os.Getenv("GOVC_KEEP") != "" {
			_ = os.MkdirAll("/tmp/govc-scripts", 0o755)
			_ = os.WriteFile(fmt.Sprintf("/tmp/govc-scripts/%s.c%d.smt2", mangle(ob.Name), k), []byte(script), 0o644)
		}
	}
	if expectSat || len(vc.Cases) == 0 || ob.Kind == "split" || ob.Kind == "vacuity" {
		if ob.Cover && timeoutS > 6 {
			timeoutS = 6 // covers are best effort: models of quantified contexts are often not found
		}
		var win solverAnswer
		var agree int
		var detail, script string
		if expectSat {
			script = vc.script(ob, -1, "", nil)
			win, agree, detail = decide(script, timeoutS, false)
			if win.status != "sat" && win.status != "unsat" && strings.Contains(script, "(forall ") {
				// solvers rarely produce models in the presence of quantified assumptions: accept a
				// model of the context without them (the quantifier-free part is then not contradictory)
				w2, a2, d2 := decide(vc.script(ob, -1, ";NOQUANT", nil), timeoutS, false)
				if w2.status == "sat" {
					w2.solver += "(qf)"
					win, agree, detail = w2, a2, d2+" model of the quantifier-free part of the context"
				}
			}
		} else {
			win, agree, detail, script = decideOb(vc, ob, -1, timeoutS, thorough)
		}
		keep(script, -1)
		r.Status, r.Solver, r.Ms, r.Output, r.Agree, r.Detail = win.status, win.solver, win.ms, win.out, agree, detail
	} else {
		// every case must be unsat; most obligations of a function (nil, bounds) do not need the split
		// at all: try the unsplit goal briefly first when there are many cases
		if len(vc.Cases) > 4 {
			win, agree, detail, script := decideOb(vc, ob, -1, 3, false)
			if win.status == "unsat" {
				keep(script, -1)
				r.Status, r.Solver, r.Ms, r.Output, r.Agree, r.Detail = win.status, win.solver, win.ms, win.out, agree, detail
				r.OK = true
				return r
			}
			r.Ms += win.ms
		}
		r.Status = "unsat"
		r.Agree = 99
		for k := range vc.Cases {
			win, agree, detail, script := decideOb(vc, ob, k, timeoutS, thorough)
			keep(script, k)
			r.Ms += win.ms
			r.Solver = win.solver
			if agree < r.Agree {
				r.Agree = agree
			}
			if win.status != "unsat" {
				r.Status, r.Output, r.Case, r.Detail = win.status, win.out, k, detail
				break
			}
		}
	}
	if expectSat {
		r.OK = r.Status == "sat"
		if r.Status == "unknown" || r.Status == "timeout" {
			r.OK = !ob.Canary // covers are best effort, canaries must be refuted
			r.Detail = "undecided"
		}
	} else {
		r.OK = r.Status == "unsat"
	}
	return r
}

func (g *Global) solveAll(vcs []*FnVC, timeoutS int, thorough bool) []*Result {
	type job struct {
		vc *FnVC
		ob *Obligation
	}
	var jobs []job
	for _, vc := range vcs {
		for _, ob := range vc.Obs {
			jobs = append(jobs, job{vc, ob})
		}
	}
	results := make([]*Result, len(jobs))
	par := 12
	if thorough {
		par = 5
	}
	sem := make(chan struct{}, par)
	var wg sync.WaitGroup
	for i, j := range jobs {
		wg.Add(1)
		sem <- struct{}{}
		go func(i int, j job) {
			defer wg.Done()
			defer func() { <-sem }()
			results[i] = g.solveOne(j.vc, j.ob, timeoutS, thorough)
		}(i, j)
	}
	wg.Wait()
	return results
}
