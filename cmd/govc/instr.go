package main

// Translation of individual SSA instructions.

import (
	"fmt"
	"go/constant"
	"go/token"
	"go/types"
	"math"
	"math/big"
	"sort"
	"strconv"
	"strings"

	"golang.org/x/tools/go/ssa"
)

func bigFromU(u uint64) *big.Int { return new(big.Int).SetUint64(u) }
func bigFromI(i int64) *big.Int  { return big.NewInt(i) }

func constantString(c *ssa.Const) string { return constant.StringVal(c.Value) }

func floatBits(c *ssa.Const, w int) string {
	f := c.Float64()
	if w == 32 {
		return bvLit(bigFromU(uint64(math.Float32bits(float32(f)))), 32)
	}
	return bvLit(bigFromU(math.Float64bits(f)), 64)
}

// Floating-point values are carried as their IEEE-754 bit patterns (bit-vectors). Comparisons and
// conversions from and to integers are exact (SMT-LIB FloatingPoint theory over the reinterpreted bits);
// arithmetic stays uninterpreted.
func toFP(bits string, w int) string {
	if w == 32 {
		return "((_ to_fp 8 24) " + bits + ")"
	}
	return "((_ to_fp 11 53) " + bits + ")"
}

// fpCompare: the Go comparison a op b on floats of width w (false whenever an operand is NaN, except !=).
func fpCompare(op token.Token, a, b string, w int) string {
	x, y := toFP(a, w), toFP(b, w)
	switch op {
	case token.LSS:
		return app("fp.lt", x, y)
	case token.LEQ:
		return app("fp.leq", x, y)
	case token.GTR:
		return app("fp.gt", x, y)
	case token.GEQ:
		return app("fp.geq", x, y)
	case token.EQL:
		return app("fp.eq", x, y)
	case token.NEQ:
		return not(app("fp.eq", x, y))
	}
	return ""
}

func (tr *Tr) curA(fr *frame) string { return tr.C.hget(fr.heap, tr.C.allocKey()) }

// allocate a fresh reference
func (tr *Tr) alloc(fr *frame, hint string) string {
	if tr.pure > 0 {
		vfail("a Go function called from a specification allocates; it is not pure")
	}
	a := tr.curA(fr)
	ref := tr.define("Int", a, hint)
	if ref == a { // keep a stable name for the reference even if the counter term is short
		defCtr++
		ref = fmt.Sprintf("%s~%d", mangle(hint), defCtr)
		tr.raw(fmt.Sprintf("(define-fun %s () Int %s)", ref, a))
	}
	fr.heap.m["ALLOC"] = tr.define("Int", app("+", a, "1"), "A")
	return ref
}

func (tr *Tr) zeroInit(fr *frame, ref string, t types.Type) {
	pl := tr.placeOfPtr(ref, t)
	switch pl.kind {
	case plObj:
		st := t.Underlying().(*types.Struct)
		for i := 0; i < st.NumFields(); i++ {
			fp := tr.fieldPlace(ref, t, st, i)
			switch fp.kind {
			case plObj:
				tr.zeroInit(fr, fp.ref, fp.ty)
			default:
				tr.storePlace(fp, fr.heap, tr.C.zero(fp.ty))
			}
		}
	default:
		tr.storePlace(pl, fr.heap, tr.C.zero(t))
	}
}

func (tr *Tr) safety(fr *frame, kind string, cond string, pos token.Pos, desc string) {
	if cond == "true" {
		return
	}
	if top := tr.topFrame; top != nil && top.contract != nil && top.contract.FrameOnly && tr.pure == 0 {
		// frame_only: an operation that panics ends the execution (nothing is written after it); the
		// contract is about what is written, so the execution continues only if it did not panic
		tr.assume(fr.curReach, cond)
		tr.vc.Abstract["frame_only: panicking operation not an obligation ("+kind+")"]++
		return
	}
	tr.oblige(fr, kind, "", "", fr.curReach, cond, pos, desc)
}

func (tr *Tr) nonNil(fr *frame, ref string, pos token.Pos, what string) {
	if strings.HasPrefix(ref, "glob_") || fr.nonNilKnown(ref) {
		return
	}
	tr.safety(fr, "nil", not(eq(ref, "0")), pos, "nil dereference: "+what)
}

func (fr *frame) nonNilKnown(ref string) bool { return false }

func (tr *Tr) instr(fr *frame, ins ssa.Instruction) {
	C := tr.C
	set := func(v ssa.Value, term string) {
		t := v.Type()
		fr.vals[v] = Val{T: tr.define(C.sortOf(t), term, fr.prefix+v.Name()), Ty: t}
	}
	switch x := ins.(type) {
	case *ssa.DebugRef:
		return
	case *ssa.Alloc:
		et := x.Type().Underlying().(*types.Pointer).Elem()
		ref := tr.alloc(fr, fr.prefix+x.Name())
		tr.zeroInit(fr, ref, et)
		fr.vals[x] = Val{T: ref, Ty: x.Type()}
	case *ssa.FieldAddr:
		base := tr.val(fr, x.X)
		pt := x.X.Type().Underlying().(*types.Pointer).Elem()
		st := pt.Underlying().(*types.Struct)
		tr.nonNil(fr, base.T, x.Pos(), "field "+st.Field(x.Field).Name())
		pl := tr.fieldPlace(base.T, pt, st, x.Field)
		fr.places[x] = pl
		if pl.kind == plObj || pl.kind == plArr {
			fr.vals[x] = Val{T: pl.ref, Ty: x.Type()}
		} else {
			fr.vals[x] = Val{T: tr.addr(structKey(pt, st), fieldName(st, x.Field), base.T), Ty: x.Type()}
		}
	case *ssa.Field:
		base := tr.val(fr, x.X)
		st := x.X.Type().Underlying().(*types.Struct)
		srt := C.structSort(x.X.Type(), st)
		set(x, app(srt+"."+fieldName(st, x.Field), base.T))
	case *ssa.IndexAddr:
		base := tr.val(fr, x.X)
		idx := tr.val(fr, x.Index)
		i64 := to64(idx)
		switch u := x.X.Type().Underlying().(type) {
		case *types.Slice:
			tr.safety(fr, "bounds", app("bvult", i64, app("s.len", base.T)), x.Pos(), "index out of range")
			es := C.sortOf(u.Elem())
			if isAggregate(u.Elem()) {
				C.declare("eaddr", "(declare-fun eaddr (Int "+bv64+") Int)")
				ref := app("eaddr", app("s.arr", base.T), app("bvadd", app("s.off", base.T), i64))
				fr.places[x] = tr.placeOfPtr(ref, u.Elem())
				fr.vals[x] = Val{T: ref, Ty: x.Type()}
				return
			}
			pl := &Place{kind: plElem, key: C.elemKey(es), ref: app("s.arr", base.T), idx: tr.define(bv64, app("bvadd", app("s.off", base.T), i64), "idx"), ty: u.Elem()}
			fr.places[x] = pl
			C.declare("eaddr", "(declare-fun eaddr (Int "+bv64+") Int)")
			fr.vals[x] = Val{T: app("eaddr", pl.ref, pl.idx), Ty: x.Type()}
		case *types.Pointer:
			at := u.Elem().Underlying().(*types.Array)
			tr.nonNil(fr, base.T, x.Pos(), "array pointer")
			tr.safety(fr, "bounds", app("bvult", i64, bvI(at.Len(), 64)), x.Pos(), "array index out of range")
			es := C.sortOf(at.Elem())
			pl := &Place{kind: plElem, key: C.elemKey(es), ref: base.T, idx: i64, ty: at.Elem()}
			fr.places[x] = pl
			C.declare("eaddr", "(declare-fun eaddr (Int "+bv64+") Int)")
			fr.vals[x] = Val{T: app("eaddr", pl.ref, pl.idx), Ty: x.Type()}
		default:
			vfail("IndexAddr on %v", x.X.Type())
		}
	case *ssa.Index:
		base := tr.val(fr, x.X)
		idx := tr.val(fr, x.Index)
		i64 := to64(idx)
		switch u := x.X.Type().Underlying().(type) {
		case *types.Array:
			tr.safety(fr, "bounds", app("bvult", i64, bvI(u.Len(), 64)), x.Pos(), "array index out of range")
			set(x, sel(base.T, i64))
		default:
			if isString(x.X.Type()) {
				tr.safety(fr, "bounds", app("bvult", i64, app("slen", base.T)), x.Pos(), "string index out of range")
				set(x, app("sat", base.T, i64))
				return
			}
			vfail("Index on %v", x.X.Type())
		}
	case *ssa.UnOp:
		tr.unop(fr, x, set)
	case *ssa.BinOp:
		tr.binop(fr, x, set)
	case *ssa.Store:
		addr := tr.val(fr, x.Addr)
		v := tr.coerceVal(tr.val(fr, x.Val), x.Val.Type())
		pl := fr.places[x.Addr]
		if pl == nil {
			et := x.Addr.Type().Underlying().(*types.Pointer).Elem()
			tr.nonNil(fr, addr.T, x.Pos(), "store through pointer")
			pl = tr.placeOfPtr(addr.T, et)
		}
		tr.guardedAccess(fr, x.Addr, x.Pos())
		tr.storePlace(pl, fr.heap, v.T)
	case *ssa.Phi:
		return
	case *ssa.Convert:
		v := tr.val(fr, x.X)
		st, dt := x.X.Type(), x.Type()
		switch {
		case isString(dt) && isByteSlice(st):
			C.declare("bytes2str", "(declare-fun bytes2str ((Array "+bv64+" (_ BitVec 8)) "+bv64+" "+bv64+") Str)")
			arr := sel(C.hget(fr.heap, C.elemKey("(_ BitVec 8)")), app("s.arr", v.T))
			s := app("bytes2str", arr, app("s.off", v.T), app("s.len", v.T))
			if tr.vc.Contract != nil && tr.vc.Contract.StrBytes {
				// Go semantics of string(b): character i is byte i of b (only with the `strbytes` directive)
				C.declare("bytes2str_ax", "(assert (forall ((a (Array "+bv64+" (_ BitVec 8))) (o "+bv64+") (n "+bv64+") (i "+bv64+")) (! (=> (and (bvsle "+bvI(0, 64)+" i) (bvslt i n)) (= (sat (bytes2str a o n) i) (select a (bvadd o i)))) :pattern ((sat (bytes2str a o n) i)))))")
			}
			set(x, s)
			tr.assume(fr.curReach, eq(app("slen", fr.vals[x].T), app("s.len", v.T)))
			tr.allocRequest(fr, app("s.len", v.T), x.Pos(), "string(bytes)")
		case isByteSlice(dt) && isString(st):
			ref := tr.alloc(fr, "strbytes")
			n := app("slen", v.T)
			set(x, app("mkslice", ite(eq(n, bvI(0, 64)), ref, ref), bvI(0, 64), n, n))
			// contents: byte i equals sat(s, i) (stated pointwise through an uninterpreted array)
			C.declare("str2bytes", "(declare-fun str2bytes (Str) (Array "+bv64+" (_ BitVec 8)))")
			if tr.vc.Contract != nil && tr.vc.Contract.StrBytes {
				// Go semantics of []byte(s): byte i is character i of s (only with the `strbytes` directive)
				C.declare("str2bytes_ax", "(assert (forall ((s Str) (i "+bv64+")) (! (= (select (str2bytes s) i) (sat s i)) :pattern ((select (str2bytes s) i)))))")
			}
			ek := C.elemKey("(_ BitVec 8)")
			fr.heap.m[ek] = tr.define(C.heapSort[ek], sto(C.hget(fr.heap, ek), ref, app("str2bytes", v.T)), ek)
		default:
			nv := tr.convert(v, dt)
			set(x, nv.T)
			if r := fr.vals[x]; isString(dt) {
				tr.assume(fr.curReach, tr.wf(r))
			}
		}
	case *ssa.ChangeType:
		v := tr.val(fr, x.X)
		if C.sortOf(x.X.Type()) != C.sortOf(x.Type()) {
			vfail("ChangeType between different representations: %v -> %v", x.X.Type(), x.Type())
		}
		fr.vals[x] = Val{T: v.T, Ty: x.Type()}
		if ci := fr.closures[x.X]; ci != nil {
			fr.closures[x] = ci
		}
	case *ssa.ChangeInterface:
		v := tr.val(fr, x.X)
		fr.vals[x] = Val{T: v.T, Ty: x.Type()}
	case *ssa.MakeInterface:
		v := tr.coerceVal(tr.val(fr, x.X), x.X.Type())
		v.Ty = x.X.Type()
		set(x, tr.makeIface(v))
		if _, isIface := x.X.Type().Underlying().(*types.Interface); !isIface {
			// the dynamic type of this interface value is evident: method calls on it are resolved
			tr.noteDyn(fr.vals[x].T, x.X.Type())
		}
		if ci := fr.closures[x.X]; ci != nil {
			fr.closures[x] = ci
		}
	case *ssa.TypeAssert:
		tr.typeAssert(fr, x, set)
	case *ssa.Extract:
		tup := tr.val(fr, x.Tuple)
		if x.Index >= len(tup.Tuple) {
			vfail("extract %d of non-tuple %s", x.Index, x.Tuple.Name())
		}
		fr.vals[x] = tup.Tuple[x.Index]
		if ci := fr.closures[x.Tuple]; ci != nil {
			_ = ci
		}
	case *ssa.Slice:
		tr.sliceOp(fr, x, set)
	case *ssa.MakeSlice:
		ln, cp := to64(tr.val(fr, x.Len)), to64(tr.val(fr, x.Cap))
		z := bvI(0, 64)
		tr.safety(fr, "makelen", and(app("bvsle", z, ln), app("bvsle", ln, cp), app("bvslt", cp, bvI(1<<48, 64))), x.Pos(), "make: len out of range")
		ref := tr.alloc(fr, "mk")
		et := x.Type().Underlying().(*types.Slice).Elem()
		ek := C.elemKey(C.sortOf(et))
		zarr := "((as const (Array " + bv64 + " " + C.sortOf(et) + ")) " + C.zero(et) + ")"
		fr.heap.m[ek] = tr.define(C.heapSort[ek], sto(C.hget(fr.heap, ek), ref, zarr), ek)
		set(x, app("mkslice", ref, z, ln, cp))
		tr.allocSize(fr, ln, et, x.Pos())
	case *ssa.MakeMap:
		ref := tr.alloc(fr, "mkmap")
		mt := x.Type().Underlying().(*types.Map)
		ks, vs := C.sortOf(mt.Key()), C.sortOf(mt.Elem())
		dom, _, ln := C.mapKeys(ks, vs)
		fr.heap.m[dom] = tr.define(C.heapSort[dom], sto(C.hget(fr.heap, dom), ref, "((as const (Array "+ks+" Bool)) false)"), dom)
		fr.heap.m[ln] = tr.define(C.heapSort[ln], sto(C.hget(fr.heap, ln), ref, bvI(0, 64)), ln)
		fr.vals[x] = Val{T: ref, Ty: x.Type()}
		tr.assume(fr.curReach, tr.wf(fr.vals[x]))
	case *ssa.MakeChan:
		ref := tr.alloc(fr, "mkchan")
		fr.vals[x] = Val{T: ref, Ty: x.Type()}
	case *ssa.MakeClosure:
		ref := tr.alloc(fr, "closure")
		ci := &closureInfo{fn: x.Fn.(*ssa.Function)}
		for _, b := range x.Bindings {
			ci.bindings = append(ci.bindings, tr.val(fr, b))
		}
		fr.closures[x] = ci
		fr.vals[x] = Val{T: ref, Ty: x.Type()}
	case *ssa.Lookup:
		tr.lookup(fr, x, set)
	case *ssa.MapUpdate:
		m := tr.val(fr, x.Map)
		mt := x.Map.Type().Underlying().(*types.Map)
		k := tr.coerceVal(tr.val(fr, x.Key), mt.Key())
		v := tr.coerceVal(tr.val(fr, x.Value), mt.Elem())
		if _, ok := mt.Key().Underlying().(*types.Interface); ok {
			k = Val{T: tr.makeIfaceIfNeeded(k, x.Key.Type()), Ty: mt.Key()}
		}
		tr.safety(fr, "nilmap", not(eq(m.T, "0")), x.Pos(), "assignment to entry in nil map")
		tr.guardedAccess(fr, x.Map, x.Pos())
		tr.mapStore(fr.heap, mt, m.T, k.T, v.T)
	case *ssa.Range:
		fr.vals[x] = Val{T: "0", Ty: x.Type()}
	case *ssa.Next:
		tup := x.Type().(*types.Tuple)
		var vs []Val
		for i := 0; i < tup.Len(); i++ {
			t := tup.At(i).Type()
			if _, inv := t.(*types.Basic); inv && t.(*types.Basic).Kind() == types.Invalid {
				vs = append(vs, Val{T: "0", Ty: t})
				continue
			}
			v := tr.freshVal(t, "next")
			tr.assume(fr.curReach, tr.wf(v))
			tr.assume(fr.curReach, tr.belowAlloc(v, tr.curA(fr)))
			vs = append(vs, v)
		}
		tr.vc.Abstract["range-over-map/string"]++
		fr.vals[x] = Val{Tuple: vs, Ty: x.Type()}
	case *ssa.Call:
		if res, ok := tr.afterCall(fr, x); ok {
			fr.vals[x] = res
			return
		}
		fr.pendingClosure = nil
		res := tr.call(fr, x, &x.Call, x.Pos())
		fr.vals[x] = res
		if fr.pendingClosure != nil {
			fr.closures[x] = fr.pendingClosure
			fr.pendingClosure = nil
		}
	case *ssa.Go:
		tr.vc.Abstract["go-statement"]++
	case *ssa.Defer:
		fr.defers = append(fr.defers, deferRec{instr: x, guard: fr.curReach, fr: fr})
		if fr.loopOf(fr.cur) != nil {
			vfail("%s: defer inside a loop is outside the subset", fr.fn)
		}
	case *ssa.RunDefers:
		tr.runDefers(fr)
	case *ssa.Send:
		tr.vc.Abstract["chan-send"]++
		if top := tr.topFrame; top != nil && top.contract != nil && top.contract.NonBlocking {
			// a plain send (not a select case with a default) waits for a receiver: in a function that must
			// not wait on other goroutines it is an obligation that the statement is unreachable
			tr.oblige(fr, "blocking", "", "", fr.curReach, "false", x.Pos(), "channel send outside a select with default may block forever")
		}
	case *ssa.Select:
		tr.vc.Abstract["select"]++
		tup := x.Type().(*types.Tuple)
		var vs []Val
		for i := 0; i < tup.Len(); i++ {
			v := tr.freshVal(tup.At(i).Type(), "select")
			tr.assume(fr.curReach, tr.wf(v))
			tr.assume(fr.curReach, tr.belowAlloc(v, tr.curA(fr)))
			vs = append(vs, v)
		}
		n := len(x.States)
		lo := int64(0)
		if !x.Blocking {
			lo = -1
		}
		tr.assume(fr.curReach, and(app("bvsle", bvI(lo, 64), vs[0].T), app("bvslt", vs[0].T, bvI(int64(n), 64))))
		fr.vals[x] = Val{Tuple: vs, Ty: x.Type()}
	case *ssa.If:
		c := tr.val(fr, x.Cond)
		b := fr.cur
		tr.edgeOut(fr, b, b.Succs[0], c.T)
		tr.edgeOut(fr, b, b.Succs[1], not(c.T))
	case *ssa.Jump:
		tr.edgeOut(fr, fr.cur, fr.cur.Succs[0], "true")
	case *ssa.Return:
		var rs []Val
		for i, r := range x.Results {
			rs = append(rs, tr.coerceVal(tr.val(fr, r), fr.fn.Signature.Results().At(i).Type()))
		}
		tr.ret(fr, rs, x.Pos())
	case *ssa.Panic:
		if fr.contract != nil && fr.contract.PanicsOK {
			return
		}
		tr.oblige(fr, "panic", "", "", fr.curReach, "false", x.Pos(), "explicit panic is unreachable")
		tr.assume(fr.curReach, "false")
	case *ssa.SliceToArrayPointer, *ssa.MultiConvert:
		vfail("%s: unsupported instruction %T", fr.fn, ins)
	default:
		vfail("%s: unsupported instruction %T", fr.fn, ins)
	}
}

func (fr *frame) loopOf(b *ssa.BasicBlock) *loopInfo {
	for _, li := range fr.loops {
		if li.blocks[b] {
			return li
		}
	}
	return nil
}

func isByteSlice(t types.Type) bool {
	s, ok := t.Underlying().(*types.Slice)
	if !ok {
		return false
	}
	b, ok := s.Elem().Underlying().(*types.Basic)
	return ok && b.Kind() == types.Uint8
}

func (tr *Tr) makeIfaceIfNeeded(v Val, st types.Type) string {
	if _, ok := st.Underlying().(*types.Interface); ok {
		return v.T
	}
	v.Ty = st
	return tr.makeIface(v)
}

func (tr *Tr) edgeOut(fr *frame, from, to *ssa.BasicBlock, cond string) {
	if isBackEdge(from, to) {
		tr.backEdge(fr, from, to, cond)
		return
	}
	key := [2]int{from.Index, to.Index}
	if old, ok := fr.edge[key]; ok && old != "" {
		fr.edge[key] = or(old, cond)
	} else {
		fr.edge[key] = cond
	}
}

func (tr *Tr) unop(fr *frame, x *ssa.UnOp, set func(ssa.Value, string)) {
	C := tr.C
	v := tr.val(fr, x.X)
	switch x.Op {
	case token.NOT:
		set(x, not(v.T))
	case token.SUB:
		if isFloat(x.Type()) {
			set(x, tr.uninterp("fneg", x.Type(), v))
			return
		}
		set(x, app("bvneg", v.T))
	case token.XOR:
		set(x, app("bvnot", v.T))
	case token.MUL: // load
		if g, ok := x.X.(*ssa.Global); ok {
			if c := tr.G.constGlobal(g); c != nil {
				// a package-level variable the module only initialises (never assigns): its initial value
				fr.vals[x] = tr.constVal(c)
				return
			}
		}
		pl := fr.places[x.X]
		if pl == nil {
			et := x.X.Type().Underlying().(*types.Pointer).Elem()
			tr.nonNil(fr, v.T, x.Pos(), "load through pointer")
			pl = tr.placeOfPtr(v.T, et)
		}
		tr.guardedAccess(fr, x.X, x.Pos())
		lv := tr.loadPlace(pl, fr.heap)
		set(x, lv.T)
		r := fr.vals[x]
		tr.assume(fr.curReach, tr.wf(r))
		bound := tr.curA(fr)
		if pl.kind != plObj {
			bound = tr.loadBound(fr, pl.key)
		}
		if bound != tr.curA(fr) && pl.ref != "" {
			// the older bound holds for locations of objects that existed then; an object allocated since
			// (by a callee whose frame does not mention this key) may hold younger references
			tr.assume(fr.curReach, implies(tr.preExisting(pl.ref, bound), tr.belowAlloc(r, bound)))
			bound = tr.curA(fr)
		}
		tr.assume(fr.curReach, tr.belowAlloc(r, bound))
		if g, ok := x.X.(*ssa.Global); ok && tr.G.nonNilGlobal(g) {
			tr.assume(fr.curReach, not(eq(r.T, "0")))
		}
		if g, ok := x.X.(*ssa.Global); ok && g.Pkg != nil && !strings.HasPrefix(g.Pkg.Pkg.Path(), modulePath) &&
			(strings.HasPrefix(g.Name(), "Err") || (g.Pkg.Pkg.Path() == "io" && g.Name() == "EOF")) && types.Identical(g.Type().(*types.Pointer).Elem(), types.Universe.Lookup("error").Type()) {
			// sentinel errors of the standard library: never nil
			tr.assume(fr.curReach, not(eq(app("i.typ", r.T), "0")))
			tr.C.assumpt["exported Err* sentinel variables of non-module packages (e.g. io.ErrUnexpectedEOF) and io.EOF are non-nil"] = true
		}
	case token.ARROW:
		tr.vc.Abstract["chan-recv"]++
		if x.CommaOk {
			et := x.Type().(*types.Tuple).At(0).Type()
			a := tr.freshVal(et, "recv")
			ok := tr.freshVal(tBool, "recvok")
			tr.assume(fr.curReach, tr.wf(a))
			tr.assume(fr.curReach, tr.belowAlloc(a, tr.curA(fr)))
			fr.vals[x] = Val{Tuple: []Val{a, ok}, Ty: x.Type()}
			return
		}
		a := tr.freshVal(x.Type(), "recv")
		tr.assume(fr.curReach, tr.wf(a))
		tr.assume(fr.curReach, tr.belowAlloc(a, tr.curA(fr)))
		fr.vals[x] = a
	default:
		vfail("unsupported unary op %v", x.Op)
	}
	_ = C
}

func (tr *Tr) uninterp(name string, rt types.Type, args ...Val) string {
	var sorts, ts []string
	for _, a := range args {
		sorts = append(sorts, tr.C.sortOf(a.Ty))
		ts = append(ts, a.T)
	}
	fn := name + "_" + sortTag(tr.C.sortOf(rt))
	for _, s := range sorts {
		fn += "_" + sortTag(s)
	}
	tr.C.declare(fn, fmt.Sprintf("(declare-fun %s (%s) %s)", fn, strings.Join(sorts, " "), tr.C.sortOf(rt)))
	tr.vc.Abstract["uninterpreted:"+name]++
	return app(fn, ts...)
}

func (tr *Tr) binop(fr *frame, x *ssa.BinOp, set func(ssa.Value, string)) {
	a := tr.val(fr, x.X)
	b := tr.val(fr, x.Y)
	t := x.X.Type()
	a, b = tr.coerceVal(a, x.Y.Type()), tr.coerceVal(b, x.X.Type())
	if a.Nil {
		a = Val{T: tr.C.zero(x.Y.Type()), Ty: x.Y.Type()}
	}
	switch x.Op {
	case token.EQL, token.NEQ:
		var e string
		at, bt := x.X.Type(), x.Y.Type()
		_, ai := at.Underlying().(*types.Interface)
		_, bi := bt.Underlying().(*types.Interface)
		switch {
		case ai && !bi:
			e = eq(a.T, tr.makeIface(Val{T: b.T, Ty: bt}))
		case bi && !ai:
			e = eq(tr.makeIface(Val{T: a.T, Ty: at}), b.T)
		case isFloat(at):
			e = fpCompare(token.EQL, a.T, b.T, intWidth(at))
		default:
			if _, ok := at.Underlying().(*types.Slice); ok {
				// only comparison against nil is legal
				if isNilConst(x.Y) {
					e = eq(app("s.arr", a.T), "0")
				} else {
					e = eq(app("s.arr", b.T), "0")
				}
			} else {
				e = eq(a.T, b.T)
			}
		}
		if x.Op == token.NEQ {
			e = not(e)
		}
		set(x, e)
		return
	}
	if isString(t) {
		switch x.Op {
		case token.ADD:
			set(x, app("sconcat", a.T, b.T))
			tr.assume(fr.curReach, eq(app("slen", fr.vals[x].T), app("bvadd", app("slen", a.T), app("slen", b.T))))
			tr.assume(fr.curReach, tr.wf(fr.vals[x]))
		default:
			set(x, tr.uninterp("strcmp"+x.Op.String(), tBool, a, b))
		}
		return
	}
	if isFloat(t) {
		if c := fpCompare(x.Op, a.T, b.T, intWidth(t)); c != "" {
			set(x, c)
			return
		}
		rt := x.Type()
		set(x, tr.uninterp("f"+opName(x.Op), rt, a, b))
		return
	}
	if isBool(t) {
		switch x.Op {
		case token.AND, token.LAND:
			set(x, and(a.T, b.T))
		case token.OR, token.LOR:
			set(x, or(a.T, b.T))
		default:
			vfail("bool binop %v", x.Op)
		}
		return
	}
	if !isInt(t) {
		vfail("binop %v on %v", x.Op, t)
	}
	uns := isUnsigned(t)
	w := intWidth(t)
	switch x.Op {
	case token.SHL, token.SHR:
		if !isUnsigned(x.Y.Type()) {
			tr.safety(fr, "shift", app("bvsge", b.T, bvI(0, intWidth(x.Y.Type()))), x.Pos(), "negative shift count")
		}
		set(x, tr.shift(x.Op == token.SHL, Val{T: a.T, Ty: t}, Val{T: b.T, Ty: x.Y.Type()}))
		return
	case token.QUO, token.REM:
		tr.safety(fr, "div0", not(eq(b.T, bvI(0, w))), x.Pos(), "division by zero")
	}
	term, _ := arith(x.Op, a.T, b.T, uns)
	if term == "" {
		vfail("unsupported binop %v", x.Op)
	}
	rangeStep := false
	if phi, ok := x.X.(*ssa.Phi); ok && phi.Comment == "rangeindex" && x.Op == token.ADD {
		rangeStep = true // hidden index of a range loop: stays below a length, cannot overflow
	}
	if fr.contract != nil && fr.contract.NoOverflow && fr.top && !rangeStep {
		tr.overflow(fr, x.Op, a.T, b.T, uns, w, x.Pos())
	}
	set(x, term)
}

func opName(op token.Token) string {
	switch op {
	case token.ADD:
		return "add"
	case token.SUB:
		return "sub"
	case token.MUL:
		return "mul"
	case token.QUO:
		return "div"
	case token.LSS:
		return "lt"
	case token.LEQ:
		return "le"
	case token.GTR:
		return "gt"
	case token.GEQ:
		return "ge"
	}
	return mangle(op.String())
}

func isNilConst(v ssa.Value) bool {
	c, ok := v.(*ssa.Const)
	return ok && c.Value == nil
}

func (tr *Tr) overflow(fr *frame, op token.Token, a, b string, uns bool, w int, pos token.Pos) {
	var c string
	switch op {
	case token.ADD:
		if uns {
			c = app("bvuge", app("bvadd", a, b), a)
		} else {
			// no signed overflow: extend by one bit
			ea, eb := fmt.Sprintf("((_ sign_extend 1) %s)", a), fmt.Sprintf("((_ sign_extend 1) %s)", b)
			s := app("bvadd", ea, eb)
			c = eq(s, fmt.Sprintf("((_ sign_extend 1) %s)", app("bvadd", a, b)))
		}
	case token.SUB:
		if uns {
			c = app("bvuge", a, b)
		} else {
			ea, eb := fmt.Sprintf("((_ sign_extend 1) %s)", a), fmt.Sprintf("((_ sign_extend 1) %s)", b)
			s := app("bvsub", ea, eb)
			c = eq(s, fmt.Sprintf("((_ sign_extend 1) %s)", app("bvsub", a, b)))
		}
	case token.MUL:
		ext := "sign_extend"
		if uns {
			ext = "zero_extend"
		}
		ea, eb := fmt.Sprintf("((_ %s %d) %s)", ext, w, a), fmt.Sprintf("((_ %s %d) %s)", ext, w, b)
		c = eq(app("bvmul", ea, eb), fmt.Sprintf("((_ %s %d) %s)", ext, w, app("bvmul", a, b)))
	default:
		return
	}
	tr.safety(fr, "overflow", c, pos, "arithmetic overflow in "+op.String())
}

func (tr *Tr) typeAssert(fr *frame, x *ssa.TypeAssert, set func(ssa.Value, string)) {
	v := tr.val(fr, x.X)
	at := x.AssertedType
	var ok string
	var res Val
	if _, isIface := at.Underlying().(*types.Interface); isIface {
		// assertion to an interface type: succeeds iff the dynamic type implements it
		ok = tr.implementsCond(v.T, at)
		res = Val{T: v.T, Ty: at}
		if dt := tr.ifaceDyn[v.T]; dt != nil && x.CommaOk {
			defer func() {
				// the result of a comma-ok assertion is the operand or the nil interface
				if tup := fr.vals[x].Tuple; len(tup) == 2 {
					tr.noteDyn(tup[0].T, dt)
				}
			}()
		}
	} else {
		ok = eq(app("i.typ", v.T), strconv.Itoa(tr.C.typeID(at)))
		res = tr.unboxIface(v.T, at)
	}
	if x.CommaOk {
		okn := tr.define("Bool", ok, fr.prefix+x.Name()+"_ok")
		rv := tr.define(tr.C.sortOf(at), ite(okn, res.T, tr.C.zero(at)), fr.prefix+x.Name())
		fr.vals[x] = Val{Tuple: []Val{{T: rv, Ty: at}, {T: okn, Ty: tBool}}, Ty: x.Type()}
		return
	}
	tr.safety(fr, "typeassert", ok, x.Pos(), "interface conversion: dynamic type is not "+shortTypeName(at))
	set(x, res.T)
}

// implementsCond: condition under which the dynamic type of interface value x implements iface.
// Enumerates the dynamic types known to the context so far plus an uninterpreted predicate for the rest.
func (tr *Tr) implementsCond(x string, iface types.Type) string {
	it := iface.Underlying().(*types.Interface)
	if it.NumMethods() == 0 {
		return not(eq(app("i.typ", x), "0"))
	}
	fn := "implements_" + mangle(shortTypeName(iface))
	tr.C.declare(fn, fmt.Sprintf("(declare-fun %s (Int) Bool)", fn))
	tr.vc.Abstract["typeassert-to-interface"]++
	// known types are decided exactly
	var ids []int
	for id := range tr.C.typeByID {
		ids = append(ids, id)
	}
	sort.Ints(ids)
	for _, id := range ids {
		t := tr.C.typeByID[id]
		k := fmt.Sprintf("%s@%d", fn, id)
		if !tr.addrSeen[k] {
			tr.addrSeen[k] = true
			tr.raw(fmt.Sprintf("(assert (= (%s %d) %v))", fn, id, types.Implements(t, it)))
		}
	}
	tr.raw(fmt.Sprintf("(assert (not (%s 0)))", fn))
	return app(fn, app("i.typ", x))
}

func (tr *Tr) sliceOp(fr *frame, x *ssa.Slice, set func(ssa.Value, string)) {
	v := tr.val(fr, x.X)
	z := bvI(0, 64)
	get := func(e ssa.Value, def string) string {
		if e == nil {
			return def
		}
		return to64(tr.val(fr, e))
	}
	switch u := x.X.Type().Underlying().(type) {
	case *types.Slice:
		lo := get(x.Low, z)
		hi := get(x.High, app("s.len", v.T))
		mx := get(x.Max, app("s.cap", v.T))
		lo, hi = tr.define(bv64, lo, "lo"), tr.define(bv64, hi, "hi")
		tr.safety(fr, "bounds", and(app("bvsle", z, lo), app("bvsle", lo, hi), app("bvsle", hi, mx), app("bvsle", mx, app("s.cap", v.T))), x.Pos(), "slice bounds out of range")
		set(x, app("mkslice", app("s.arr", v.T), app("bvadd", app("s.off", v.T), lo), app("bvsub", hi, lo), app("bvsub", mx, lo)))
	case *types.Basic: // string
		lo := get(x.Low, z)
		hi := get(x.High, app("slen", v.T))
		tr.safety(fr, "bounds", and(app("bvsle", z, lo), app("bvsle", lo, hi), app("bvsle", hi, app("slen", v.T))), x.Pos(), "string slice bounds out of range")
		tr.C.declare("ssub", "(declare-fun ssub (Str "+bv64+" "+bv64+") Str)")
		set(x, app("ssub", v.T, lo, hi))
		tr.assume(fr.curReach, eq(app("slen", fr.vals[x].T), app("bvsub", hi, lo)))
	case *types.Pointer: // *array
		at := u.Elem().Underlying().(*types.Array)
		n := bvI(at.Len(), 64)
		lo := get(x.Low, z)
		hi := get(x.High, n)
		mx := get(x.Max, n)
		tr.nonNil(fr, v.T, x.Pos(), "slice of nil array pointer")
		tr.safety(fr, "bounds", and(app("bvsle", z, lo), app("bvsle", lo, hi), app("bvsle", hi, mx), app("bvsle", mx, n)), x.Pos(), "slice bounds out of range")
		set(x, app("mkslice", v.T, lo, app("bvsub", hi, lo), app("bvsub", mx, lo)))
		if x.Low == nil && x.High == nil {
			tr.sliceConstLen[fr.vals[x].T] = at.Len()
		}
	default:
		vfail("slice of %v", x.X.Type())
	}
}

func (tr *Tr) mapStore(h *Heap, mt *types.Map, m, k, v string) {
	C := tr.C
	ks, vs := C.sortOf(mt.Key()), C.sortOf(mt.Elem())
	dom, val, ln := C.mapKeys(ks, vs)
	d := C.hget(h, dom)
	present := sel(sel(d, m), k)
	l := C.hget(h, ln)
	h.m[ln] = tr.define(C.heapSort[ln], sto(l, m, ite(present, sel(l, m), app("bvadd", sel(l, m), bvI(1, 64)))), ln)
	h.m[dom] = tr.define(C.heapSort[dom], sto(d, m, sto(sel(d, m), k, "true")), dom)
	vv := C.hget(h, val)
	h.m[val] = tr.define(C.heapSort[val], sto(vv, m, sto(sel(vv, m), k, v)), val)
}

func (tr *Tr) mapDelete(h *Heap, mt *types.Map, m, k string) {
	C := tr.C
	ks, vs := C.sortOf(mt.Key()), C.sortOf(mt.Elem())
	dom, _, ln := C.mapKeys(ks, vs)
	d := C.hget(h, dom)
	present := and(not(eq(m, "0")), sel(sel(d, m), k))
	l := C.hget(h, ln)
	h.m[ln] = tr.define(C.heapSort[ln], sto(l, m, ite(present, app("bvsub", sel(l, m), bvI(1, 64)), sel(l, m))), ln)
	h.m[dom] = tr.define(C.heapSort[dom], ite(eq(m, "0"), d, sto(d, m, sto(sel(d, m), k, "false"))), dom)
}

func (tr *Tr) lookup(fr *frame, x *ssa.Lookup, set func(ssa.Value, string)) {
	C := tr.C
	m := tr.val(fr, x.X)
	if isString(x.X.Type()) {
		i := to64(tr.val(fr, x.Index))
		tr.safety(fr, "bounds", app("bvult", i, app("slen", m.T)), x.Pos(), "string index out of range")
		set(x, app("sat", m.T, i))
		return
	}
	mt := x.X.Type().Underlying().(*types.Map)
	k := tr.coerceVal(tr.val(fr, x.Index), mt.Key())
	if _, ok := mt.Key().Underlying().(*types.Interface); ok {
		k = Val{T: tr.makeIfaceIfNeeded(k, x.Index.Type()), Ty: mt.Key()}
	}
	tr.guardedAccess(fr, x.X, x.Pos())
	ks, vs := C.sortOf(mt.Key()), C.sortOf(mt.Elem())
	dom, val, _ := C.mapKeys(ks, vs)
	present := and(not(eq(m.T, "0")), sel(sel(C.hget(fr.heap, dom), m.T), k.T))
	pn := tr.define("Bool", present, fr.prefix+x.Name()+"_ok")
	v := ite(pn, sel(sel(C.hget(fr.heap, val), m.T), k.T), C.zero(mt.Elem()))
	vn := tr.define(vs, v, fr.prefix+x.Name())
	rv := Val{T: vn, Ty: mt.Elem()}
	tr.assume(fr.curReach, tr.wf(rv))
	tr.assume(fr.curReach, tr.belowAlloc(rv, tr.curA(fr)))
	if x.CommaOk {
		fr.vals[x] = Val{Tuple: []Val{rv, {T: pn, Ty: tBool}}, Ty: x.Type()}
	} else {
		fr.vals[x] = rv
	}
}

// ---------- returns ----------

func (tr *Tr) ret(fr *frame, rs []Val, pos token.Pos) {
	if !fr.top {
		fr.rets = append(fr.rets, retRec{reach: fr.curReach, results: rs, heap: fr.heap.clone()})
		return
	}
	c := fr.contract
	if c == nil {
		return
	}
	env := tr.entryEnv(fr)
	env.heap = fr.heap
	env.curA = tr.curA(fr)
	env.results = rs
	res := fr.fn.Signature.Results()
	for i := 0; i < res.Len(); i++ {
		env.resName = append(env.resName, res.At(i).Name())
	}
	// convenience names for the common (value, error) shape
	if res.Len() >= 1 {
		if last := res.At(res.Len() - 1); last.Name() == "" && types.Identical(last.Type(), types.Universe.Lookup("error").Type()) {
			env.names["err"] = rs[res.Len()-1]
		}
	}
	// a function that calls its own function parameter h (`calls h`): ran_h / res_h at this return
	for _, hn := range c.Calls {
		if p := fr.params[hn]; p.T != "" {
			if sig, ok := p.Ty.Underlying().(*types.Signature); ok {
				ranK, resK := tr.cbKeys(hn, sig.Results())
				env.names["ran_"+hn] = Val{T: sel(tr.C.hget(fr.heap, ranK), "0"), Ty: tBool}
				if resK != "" && sig.Results().Len() == 1 {
					env.names["res_"+hn] = Val{T: sel(tr.C.hget(fr.heap, resK), "0"), Ty: sig.Results().At(0).Type()}
				}
			}
		}
	}
	for k, e := range c.Ensures {
		t, err := env.evalBool(e.S)
		if err != nil {
			vfail("%s: ensures %s: %v", fr.fn, clauseLabel(e, k), err)
		}
		ob := tr.oblige(fr, "ensures", clauseLabel(e, k), e.Prop, fr.curReach, t, pos, e.Text)
		ob.Canary = e.Canary
		ob.MustWitness = e.Witness
		if !e.Canary {
			// a reachability cover per clause and return point is collected separately
		}
	}
	if c.HasAssigns {
		tr.frameCheck(fr, env, pos)
	}
	cov := tr.oblige(fr, "cover", "return", "", fr.curReach, "false", pos, "return point is reachable under the precondition (expects sat)")
	cov.Cover = true
}

// frameCheck: every heap array differing from its entry version differs only at assigned locations
// (or at references allocated during the call).
func (tr *Tr) frameCheck(fr *frame, env *specEnv, pos token.Pos) {
	C := tr.C
	allowed := tr.assignTargets(fr, fr.contract, tr.entryEnv(fr))
	if star := allowed["*"]; star != nil && star.all {
		return // assigns *: no frame is claimed
	}
	var ks []string
	for k := range fr.heap.m {
		ks = append(ks, k)
	}
	if fr.heap.base != fr.entryH.base {
		ks = C.sortedHeapKeys()
	}
	sort.Strings(ks)
	var restGoals, restKeys []string
	for _, k := range ks {
		if k == "ALLOC" {
			continue
		}
		cur, old := C.hget(fr.heap, k), C.hget(fr.entryH, k)
		if cur == old {
			continue
		}
		tg := allowed[k]
		if tg != nil && tg.all {
			continue
		}
		r := tr.declareConst("Int", "frame_r")
		conds := []string{tr.preExisting(r, fr.entryA)}
		var goal string
		if tg != nil && len(tg.inner) > 0 && len(tg.refs) == 0 && len(tg.since) == 0 {
			// assigned: particular inner indices of particular objects (map entries / slice elements)
			srt := C.heapSort[k]
			isort := innerIndexSort(srt)
			ix := tr.declareConst(isort, "frame_i")
			var ex []string
			for _, in := range tg.inner {
				ex = append(ex, and(eq(r, in[0]), tr.innerMatch(ix, in)))
			}
			goal = implies(and(append(conds, not(or(ex...)))...), eq(sel(sel(cur, r), ix), sel(sel(old, r), ix)))
		} else {
			if tg != nil {
				for _, a := range tg.refs {
					conds = append(conds, not(eq(r, a)))
				}
				for _, b := range tg.since {
					conds = append(conds, tr.preExisting(r, b))
				}
			}
			goal = implies(and(conds...), eq(sel(cur, r), sel(old, r)))
		}
		if tg == nil {
			restGoals = append(restGoals, goal)
			restKeys = append(restKeys, k)
			continue
		}
		tr.oblige(fr, "assigns", k, "", fr.curReach, goal, pos, "frame: "+k+" changes only where the assigns clause allows")
	}
	// heap arrays the assigns clause does not mention at all: one obligation when there are many
	if len(restKeys) > 3 {
		tr.oblige(fr, "assigns", "others", "", fr.curReach, and(restGoals...), pos, "frame: nothing changes in "+strings.Join(restKeys, ", ")+" (not mentioned in the assigns clause)")
	} else {
		for i, k := range restKeys {
			tr.oblige(fr, "assigns", k, "", fr.curReach, restGoals[i], pos, "frame: "+k+" changes only where the assigns clause allows")
		}
	}
}

func (tr *Tr) innerMatch(ix string, in []string) string {
	if len(in) == 2 {
		return eq(ix, in[1])
	}
	// range [lo, hi)
	return and(app("bvsle", in[1], ix), app("bvslt", ix, in[2]))
}

func innerIndexSort(arrSort string) string {
	// "(Array Int (Array K V))" -> K
	s := strings.TrimPrefix(arrSort, "(Array Int (Array ")
	depth := 0
	for i := 0; i < len(s); i++ {
		switch s[i] {
		case '(':
			depth++
		case ')':
			depth--
		case ' ':
			if depth == 0 {
				return s[:i]
			}
		}
	}
	return "Int"
}

type assignTarget struct {
	all   bool
	since []string // only objects at least as young as these references (allocation order) may change
	refs  []string   // whole cells at these references
	inner [][]string // (ref, index) or (ref, lo, hi) entries of nested arrays
}

// assignTargets resolves the assigns clause of contract c in env (pre-state) to heap keys.
func (tr *Tr) assignTargets(fr *frame, c *Contract, env *specEnv) map[string]*assignTarget {
	out := map[string]*assignTarget{}
	get := func(k string) *assignTarget {
		t := out[k]
		if t == nil {
			t = &assignTarget{}
			out[k] = t
		}
		return t
	}
	for _, a := range c.Assigns {
		a = strings.TrimSpace(a)
		switch {
		case a == "*":
			get("*").all = true
		case a == "alloc":
			// allocation is always allowed
		case strings.HasPrefix(a, "window(") && strings.HasSuffix(a, ")"):
			// the elements visible through slice x: indices [off, off+len) of its backing array
			s, err := parseSpec(a[7 : len(a)-1])
			if err != nil {
				vfail("assigns %s: %v", a, err)
			}
			v, err := env.evalVal(s)
			if err != nil {
				vfail("assigns %s: %v", a, err)
			}
			st, ok := v.Ty.Underlying().(*types.Slice)
			if !ok {
				vfail("assigns window(x): x must be a slice")
			}
			t := get(tr.C.elemKey(tr.C.sortOf(st.Elem())))
			t.inner = append(t.inner, []string{app("s.arr", v.T), app("s.off", v.T), app("bvadd", app("s.off", v.T), app("s.len", v.T))})
		case strings.HasPrefix(a, "elems(") && strings.HasSuffix(a, ")"):
			s, err := parseSpec(a[6 : len(a)-1])
			if err != nil {
				vfail("assigns %s: %v", a, err)
			}
			v, err := env.evalVal(s)
			if err != nil {
				vfail("assigns %s: %v", a, err)
			}
			st, ok := v.Ty.Underlying().(*types.Slice)
			if !ok {
				vfail("assigns elems(x): x must be a slice")
			}
			t := get(tr.C.elemKey(tr.C.sortOf(st.Elem())))
			t.refs = append(t.refs, app("s.arr", v.T))
		case strings.HasPrefix(a, "map(") && strings.HasSuffix(a, ")"):
			s, err := parseSpec(a[4 : len(a)-1])
			if err != nil {
				vfail("assigns %s: %v", a, err)
			}
			v, err := env.evalVal(s)
			if err != nil {
				vfail("assigns %s: %v", a, err)
			}
			mt, ok := v.Ty.Underlying().(*types.Map)
			if !ok {
				vfail("assigns map(x): x must be a map")
			}
			d, vl, ln := tr.C.mapKeys(tr.C.sortOf(mt.Key()), tr.C.sortOf(mt.Elem()))
			for _, k := range []string{d, vl, ln} {
				t := get(k)
				t.refs = append(t.refs, v.T)
			}
		case isGhostTarget(tr.G, a):
			i := strings.Index(a, "(")
			gm := tr.G.contracts.Ghosts[ghostTargetName(tr.G, a)]
			s, err := parseSpec(a[i+1 : len(a)-1])
			if err != nil {
				vfail("assigns %s: %v", a, err)
			}
			v, err := env.evalVal(s)
			if err != nil {
				vfail("assigns %s: %v", a, err)
			}
			key, _ := env.ghostKey(gm)
			t := get(key)
			t.refs = append(t.refs, refOf(v))
		case strings.HasPrefix(a, "released(") && strings.HasSuffix(a, ")"):
			s, err := parseSpec(a[9 : len(a)-1])
			if err != nil {
				vfail("assigns %s: %v", a, err)
			}
			v, err := env.evalVal(s)
			if err != nil {
				vfail("assigns %s: %v", a, err)
			}
			t := get(tr.C.relKey())
			t.refs = append(t.refs, v.T)
		case strings.HasPrefix(a, "held(") && strings.HasSuffix(a, ")"):
			s, err := parseSpec(a[5 : len(a)-1])
			if err != nil {
				vfail("assigns %s: %v", a, err)
			}
			v, err := env.evalVal(s)
			if err != nil {
				vfail("assigns %s: %v", a, err)
			}
			t := get(tr.C.heldKey())
			t.refs = append(t.refs, v.T)
		case strings.HasPrefix(a, "since("):
			// since(p) [but T1 T2]: any location of the object p points to (or is a member of) and of objects
			// allocated after it; objects older than p are untouched. Fields of the struct types after
			// `but` are not covered at all.
			j := strings.Index(a, ")")
			if j < 0 {
				vfail("assigns %s: missing )", a)
			}
			// find the matching parenthesis
			depth := 0
			for i := 5; i < len(a); i++ {
				if a[i] == '(' {
					depth++
				} else if a[i] == ')' {
					depth--
					if depth == 0 {
						j = i
						break
					}
				}
			}
			s, err := parseSpec(a[6:j])
			if err != nil {
				vfail("assigns %s: %v", a, err)
			}
			v, err := env.evalVal(s)
			if err != nil {
				vfail("assigns %s: %v", a, err)
			}
			ref := refOf(v)
			tr.C.declare("owner", "(declare-fun owner (Int) Int)")
			bound := ite(app("<", ref, "0"), app("owner", ref), ref)
			var skip []string
			rest := strings.TrimSpace(a[j+1:])
			if strings.HasPrefix(rest, "but ") {
				for _, tn := range strings.Fields(rest[4:]) {
					t := env.resolveType(tn)
					st, ok := t.Underlying().(*types.Struct)
					if !ok {
						vfail("assigns %s: %s is not a struct type", a, tn)
					}
					skip = append(skip, "F_"+mangle(structKey(t, st))+"_")
				}
			} else if rest != "" {
				vfail("assigns %s: expected `but T...`", a)
			}
		skeys:
			for _, k := range tr.C.sortedHeapKeys() {
				if k == "ALLOC" || k == "HELD" || k == "REL" || strings.HasPrefix(k, "G_") {
					continue
				}
				for _, p := range skip {
					if strings.HasPrefix(k, p) {
						continue skeys
					}
				}
				t := get(k)
				t.since = append(t.since, bound)
			}
		case strings.HasPrefix(a, "allbut "):
			// allbut T1 T2 : every heap location (fields, cells, slice elements, maps) except the fields of
			// objects of the named struct types; locks and ghost state are untouched
			var skip []string
			exact := map[string]bool{}
			for _, tn := range strings.Fields(a[7:]) {
				if strings.HasPrefix(tn, "[]") {
					// []T : the elements of every []T are untouched as well
					et := env.resolveType(tn[2:])
					skip = append(skip, tr.C.elemKey(tr.C.sortOf(et)))
					continue
				}
				if strings.HasPrefix(tn, "map[") {
					// map[K]V : membership and values of every such map are untouched as well (not its length)
					mt, ok := env.resolveType(tn).Underlying().(*types.Map)
					if !ok {
						vfail("assigns %s: %s is not a map type", a, tn)
					}
					d, vl, _ := tr.C.mapKeys(tr.C.sortOf(mt.Key()), tr.C.sortOf(mt.Elem()))
					skip = append(skip, d, vl)
					continue
				}
				if key, err := tr.tryFieldKey(env, tn); err == nil {
					// T.f : that one field of every T is untouched
					exact[key] = true
					continue
				}
				t := env.resolveType(tn)
				st, ok := t.Underlying().(*types.Struct)
				if !ok {
					vfail("assigns %s: %s is not a struct type", a, tn)
				}
				skip = append(skip, "F_"+mangle(structKey(t, st))+"_")
			}
		keys:
			for _, k := range tr.C.sortedHeapKeys() {
				if k == "ALLOC" || k == "HELD" || k == "REL" || strings.HasPrefix(k, "G_") || exact[k] {
					continue
				}
				for _, p := range skip {
					if strings.HasPrefix(k, p) {
						continue keys
					}
				}
				get(k).all = true
			}
		case strings.HasPrefix(a, "any "):
			// any T.f : field f of every object of type T
			key, err := tr.fieldKeyByName(env, strings.TrimSpace(a[4:]))
			if err != nil {
				vfail("assigns %s: %v", a, err)
			}
			get(key).all = true
		default:
			// e.f  or *p
			i := strings.LastIndex(a, ".")
			if strings.HasPrefix(a, "*") {
				s, err := parseSpec(a[1:])
				if err != nil {
					vfail("assigns %s: %v", a, err)
				}
				v, err := env.evalVal(s)
				if err != nil {
					vfail("assigns %s: %v", a, err)
				}
				pt, ok := v.Ty.Underlying().(*types.Pointer)
				if !ok {
					vfail("assigns %s: not a pointer", a)
				}
				keys := map[string]bool{}
				pl := tr.placeOfPtr(v.T, pt.Elem())
				tr.placeKeys(pl, keys)
				for k := range keys {
					t := get(k)
					t.refs = append(t.refs, v.T)
				}
				continue
			}
			if i < 0 {
				vfail("assigns: cannot understand target %q", a)
			}
			s, err := parseSpec(a[:i])
			if err != nil {
				vfail("assigns %s: %v", a, err)
			}
			v, err := env.evalVal(s)
			if err != nil {
				vfail("assigns %s: %v", a, err)
			}
			T := v.Ty
			if p, ok := T.Underlying().(*types.Pointer); ok {
				T = p.Elem()
			}
			path := findFieldPath(T, a[i+1:])
			if path == nil {
				vfail("assigns %s: no such field", a)
			}
			ref := v.T
			cur := T
			for n, fi := range path {
				st := cur.Underlying().(*types.Struct)
				pl := tr.fieldPlace(ref, cur, st, fi)
				if n == len(path)-1 {
					keys := map[string]bool{}
					tr.placeKeys(pl, keys)
					for k := range keys {
						t := get(k)
						if pl.kind == plObj {
							t.all = true // nested struct: conservative
						} else {
							t.refs = append(t.refs, pl.ref)
						}
					}
				} else {
					ft := st.Field(fi).Type()
					if p, ok := ft.Underlying().(*types.Pointer); ok {
						ref = tr.loadPlace(pl, env.heap).T
						cur = p.Elem()
					} else {
						ref = pl.ref
						cur = ft
					}
				}
			}
		}
	}
	return out
}

// ghostTargetName: for an assigns target `name(x)` or `pkg.name(x)` naming a declared ghost map,
// the bare ghost name ("" otherwise).
func ghostTargetName(g *Global, a string) string {
	i := strings.Index(a, "(")
	if i <= 0 || !strings.HasSuffix(a, ")") {
		return ""
	}
	n := a[:i]
	if j := strings.LastIndex(n, "."); j >= 0 {
		n = n[j+1:]
	}
	if g.contracts.Ghosts[n] != nil {
		return n
	}
	return ""
}

func isGhostTarget(g *Global, a string) bool {
	return ghostTargetName(g, a) != ""
}

func (tr *Tr) fieldKeyByName(env *specEnv, s string) (string, error) {
	i := strings.LastIndex(s, ".")
	if i < 0 {
		return "", fmt.Errorf("want T.f")
	}
	t := env.resolveType(s[:i])
	st, ok := t.Underlying().(*types.Struct)
	if !ok {
		return "", fmt.Errorf("%s is not a struct", s[:i])
	}
	for k := 0; k < st.NumFields(); k++ {
		if st.Field(k).Name() == s[i+1:] {
			return tr.C.fieldKey(t, st, k), nil
		}
	}
	return "", fmt.Errorf("no field %s", s[i+1:])
}

// tryFieldKey: fieldKeyByName, with a specification failure (unknown type) turned into an error.
func (tr *Tr) tryFieldKey(env *specEnv, s string) (key string, err error) {
	defer func() {
		if r := recover(); r != nil {
			key, err = "", fmt.Errorf("%v", r)
		}
	}()
	return tr.fieldKeyByName(env, s)
}

// allocSize hook (alloc_bound obligations) - filled in by contracts that ask for it
func (tr *Tr) allocSize(fr *frame, n string, et types.Type, pos token.Pos) {
	tr.allocRequest(fr, n, pos, "make")
}

// allocRequest: an allocation request of n (64-bit term) elements, against the maxalloc clause of the
// function under verification.
func (tr *Tr) allocRequest(fr *frame, n string, pos token.Pos, what string) {
	top := tr.topFrame
	if top == nil || top.contract == nil || top.contract.MaxAlloc == nil || tr.pure > 0 {
		return
	}
	c := top.contract
	env := tr.entryEnv(top)
	b, err := env.evalVal(c.MaxAlloc.S)
	if err != nil {
		vfail("%s: maxalloc: %v", top.fn, err)
	}
	if b.K != nil {
		b = env.coerce(b, tInt)
	}
	lab := c.MaxAlloc.Label
	if lab == "" {
		lab = "maxalloc"
	}
	ob := tr.oblige(fr, "alloc", lab, c.MaxAlloc.Prop, fr.curReach, app("bvsle", n, to64(b)), pos,
		what+": requested element count is at most "+c.MaxAlloc.Text)
	ob.Witness = "(assert " + app("bvsge", n, bvI(1<<26, 64)) + ")"
}

// guardedAccess emits the lock-held obligation for accesses to guarded fields.
func (tr *Tr) guardedAccess(fr *frame, addr ssa.Value, pos token.Pos) {
	fa, ok := addr.(*ssa.FieldAddr)
	if !ok {
		return
	}
	pt := fa.X.Type().Underlying().(*types.Pointer).Elem()
	st := pt.Underlying().(*types.Struct)
	named, ok := pt.(*types.Named)
	if !ok {
		return
	}
	for _, g := range tr.G.contracts.Guarded {
		if named.Obj().Pkg() == nil || named.Obj().Pkg().Path() != g.PkgPath || named.Obj().Name() != g.Struct || st.Field(fa.Field).Name() != g.Field {
			continue
		}
		if !fr.top || fr.contract == nil {
			continue
		}
		base := tr.val(fr, fa.X)
		path := findFieldPath(pt, g.Mutex)
		if path == nil {
			vfail("guarded_by: no mutex field %s in %s", g.Mutex, g.Struct)
		}
		mst := pt.Underlying().(*types.Struct)
		maddr := tr.addr(structKey(pt, mst), fieldName(mst, path[0]), base.T)
		prop := ""
		if len(g.Props) > 0 {
			prop = g.Props[0]
		}
		ob := tr.oblige(fr, "held", g.Field, prop, fr.curReach, sel(tr.C.hget(fr.heap, tr.C.heldKey()), maddr), pos, "access to "+g.Struct+"."+g.Field+" requires "+g.Mutex+" to be held")
		_ = ob
	}
}
