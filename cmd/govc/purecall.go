package main

// Go functions called from specifications: evaluated as pure terms by inlining their SSA.

import (
	"go/ast"
	"go/token"
	"go/types"

	"golang.org/x/tools/go/ssa"
)

// side-effect free, deterministic packages whose functions may be modelled as uninterpreted
// functions of plain-value arguments
var pureStdlib = map[string]bool{"strings": true, "strconv": true, "unicode": true, "unicode/utf8": true, "path": true, "math": true, "math/bits": true}

// resolveGoFunc resolves a call target in a specification to a Go function, with the receiver
// value for method calls.
func (e *specEnv) resolveGoFunc(fun ast.Expr, sg *SGo) (*types.Func, *Val) {
	switch f := fun.(type) {
	case *ast.Ident:
		if _, shadow := e.names[f.Name]; shadow {
			return nil, nil
		}
		if o, ok := e.lookupObj(f.Name).(*types.Func); ok {
			return o, nil
		}
	case *ast.SelectorExpr:
		if id, ok := f.X.(*ast.Ident); ok {
			if _, shadow := e.names[id.Name]; !shadow && e.lookupObj(id.Name) == nil {
				if p := e.importedPkg(id.Name); p != nil {
					if o, ok := p.Scope().Lookup(f.Sel.Name).(*types.Func); ok {
						return o, nil
					}
					return nil, nil
				}
			}
		}
		recv := e.expr(f.X, sg)
		if recv.Ty == nil {
			return nil, nil
		}
		for _, t := range []types.Type{recv.Ty, types.NewPointer(recv.Ty)} {
			ms := types.NewMethodSet(t)
			for i := 0; i < ms.Len(); i++ {
				m := ms.At(i)
				if m.Obj().Name() == f.Sel.Name {
					if fo, ok := m.Obj().(*types.Func); ok {
						if len(m.Index()) > 1 {
							sfail("promoted method %s in a specification: select the embedded field explicitly", f.Sel.Name)
						}
						sig := fo.Type().(*types.Signature)
						_, wantPtr := sig.Recv().Type().Underlying().(*types.Pointer)
						_, havePtr := recv.Ty.Underlying().(*types.Pointer)
						if wantPtr && !havePtr {
							sfail("method %s needs a pointer receiver", f.Sel.Name)
						}
						r := recv
						if !wantPtr && havePtr {
							// value receiver called through a pointer: load the value
							pl := e.tr.placeOfPtr(recv.T, recv.Ty.Underlying().(*types.Pointer).Elem())
							r = e.tr.loadPlace(pl, e.heap)
						}
						return fo, &r
					}
				}
			}
		}
	}
	return nil, nil
}

func (e *specEnv) goCall(fn *ssa.Function, args []Val) Val {
	tr := e.tr
	if len(fn.Blocks) == 0 {
		sfail("%s has no body", fn)
	}
	res := fn.Signature.Results()
	if res.Len() != 1 {
		sfail("%s must have exactly one result to be used in a specification", fn)
	}
	tr.pure++
	defer func() { tr.pure-- }()
	entry := e.old
	if entry == nil {
		entry = e.heap
	}
	fr := &frame{curReach: "true", heap: e.heap.clone(), kindCtr: map[string]int{}, entryH: entry, entryA: e.oldA,
		closures: map[ssa.Value]*closureInfo{}, vals: map[ssa.Value]Val{}}
	return tr.staticCall(fr, fn, args, nil, res.At(0).Type(), token.NoPos, nil)
}
