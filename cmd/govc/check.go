package main

// Property-level driver: selects the functions under contract for a property, discharges the
// obligations the property owns, handles vacuity guards, known findings, replay files, evidence.

import (
	"encoding/json"
	"fmt"
	"os"
	"path/filepath"
	"regexp"
	"sort"
	"strconv"
	"strings"
	"time"
)

var propPatterns = map[string][]string{
	"C01": {"./ua"}, "C02": {"./ua"}, "C03": {"./ua"}, "C04": {"./ua"},
	"C05": {"./uacp"}, "C06": {"./uacp", "./uasc"},
	"C07": {"./uasc"}, "C08": {"./uasc"}, "C09": {"./uasc"}, "C10": {"./uasc"}, "C11": {"./uasc"}, "C12": {"./uasc"},
	"C13": {"./uasc"}, "C17": {"./uasc"}, "C18": {"./uasc", "."}, "C20": {"./uasc", "./uacp", "./ua"}, "C38": {"./uasc"},
	"C14": {"./uapolicy"}, "C15": {"./uapolicy"},
	"C21": {".", "./monitor"}, "C22": {"."}, "C23": {"."}, "C24": {"."},
	"C29": {"./server"}, "C30": {"./server"}, "C31": {"./server"}, "C32": {"./server"}, "C33": {"./server"}, "C35": {"./server"},
}

type Finding struct {
	Prop       string
	Obligation string
	Excuse     string
	What       string
	Replay     string
}

var kvRe = regexp.MustCompile(`(\w+)=("([^"]*)"|\S+)`)

func loadFindings(path string) ([]Finding, []string, error) {
	data, err := os.ReadFile(path)
	if err != nil {
		if os.IsNotExist(err) {
			return nil, nil, nil
		}
		return nil, nil, err
	}
	var fs []Finding
	var fixed []string
	for _, line := range strings.Split(string(data), "\n") {
		line = strings.TrimSpace(line)
		if strings.HasPrefix(line, "fixed:") {
			fixed = append(fixed, line)
			continue
		}
		if !strings.HasPrefix(line, "finding:") {
			continue
		}
		f := Finding{}
		for _, m := range kvRe.FindAllStringSubmatch(line, -1) {
			v := m[2]
			if strings.HasPrefix(v, "\"") {
				v = m[3]
			}
			switch m[1] {
			case "property":
				f.Prop = v
			case "obligation":
				f.Obligation = v
			case "excuse":
				f.Excuse = v
			case "what":
				f.What = v
			case "replay":
				f.Replay = v
			}
		}
		fs = append(fs, f)
	}
	return fs, fixed, nil
}

type obSample struct {
	Name   string `json:"name"`
	Status string `json:"status"`
	Solver string `json:"solver"`
	Ms     int64  `json:"ms"`
	Pos    string `json:"pos,omitempty"`
	What   string `json:"what,omitempty"`
}

// sweepProps: properties whose statement is "never panics / never hangs": they own the panic-safety and
// termination obligations of every function that lists them, in addition to the function's first
// property (the same obligation is then checked, and reported, by both checks).
var sweepProps = map[string]bool{"C29": true, "C13": true, "C21": true, "C02": true}

var safetyKinds = map[string]bool{"nil": true, "bounds": true, "typeassert": true, "div0": true, "makelen": true, "nilmap": true,
	"close": true, "panic": true, "blocking": true, "decreases": true, "overflow": true}

func owns(prop string, c *Contract, ob *Obligation) bool {
	if len(c.Only) > 0 && !ob.Cover {
		// `only <label>...`: the contract claims nothing but the named clauses of this function
		name := returnOrdinalRe.ReplaceAllString(ob.Name, "")
		i := strings.LastIndex(name, "#")
		if i < 0 {
			return false
		}
		found := false
		for _, l := range c.Only {
			if name[i+1:] == l {
				found = true
			}
		}
		if !found {
			return false
		}
	}
	if ob.Prop != "" {
		// a clause labelled [C05,C06:name] belongs to each of the listed properties
		for _, p := range strings.Split(ob.Prop, ",") {
			if p == prop {
				return true
			}
		}
		return false
	}
	// Unlabelled obligations of a function (its frame, its safety, unlabelled clauses) belong to every
	// property the contract lists: a function a property depends on must be right as a whole for that
	// property, and a change that breaks the function is reported by each of its properties' checks.
	// (Until session 4 only the first listed property and the sweep properties owned them; seeded changes
	// were then caught by a neighbouring check instead of the property's own.)
	return hasProp(c, prop)
}

var returnOrdinalRe = regexp.MustCompile(`@\d+$`)

// lookupFinding: a known finding names an obligation either exactly or without the ordinal of the
// return point (`...ensures#label` matches `...ensures#label@k` for every k), so that adding a return
// statement to the function does not turn a recorded finding into a new alarm.
func lookupFinding(m map[string]*Finding, name string) *Finding {
	if f := m[name]; f != nil {
		return f
	}
	return m[returnOrdinalRe.ReplaceAllString(name, "")]
}

func variantSuffix(c *Contract) string {
	if c != nil && c.Variant != "" {
		return "@" + c.Variant
	}
	return ""
}

func hasProp(c *Contract, prop string) bool {
	for _, p := range c.Props {
		if p == prop {
			return true
		}
	}
	return false
}

func runCheck(prop, tier string) int {
	t0 := time.Now()
	thorough := tier == "thorough"
	seed, _ := strconv.Atoi(os.Getenv("VERIF_SEED"))
	pats := propPatterns[prop]
	if pats == nil {
		pats = loadPatterns()
	}
	g, err := load(pats)
	if err != nil {
		fmt.Fprintf(os.Stderr, "govc: load failed: %v\n", err)
		return 2
	}
	loadS := time.Since(t0).Seconds()
	findings, fixed, err := loadFindings(filepath.Join(g.verifDir, "known_findings.txt"))
	if err != nil {
		fmt.Fprintf(os.Stderr, "govc: %v\n", err)
		return 2
	}
	fByOb := map[string]*Finding{}
	for i := range findings {
		if findings[i].Prop == prop {
			fByOb[findings[i].Obligation] = &findings[i]
		}
	}
	g.findings = fByOb

	var vcs []*FnVC
	var fuc []string
	trusted := map[string]bool{}
	infra := []string{}
	type vio struct {
		name, detail, output, script string
		res                          *Result
	}
	var vios []vio
	var undecided []string
	for _, c := range g.contracts.Order {
		if !hasProp(c, prop) {
			continue
		}
		if c.Assumed {
			trusted["assumed contract: "+c.Full] = true
			continue
		}
		fn := g.fnByName[c.FnName()]
		if fn == nil {
			infra = append(infra, "contract for missing function "+c.Full)
			continue
		}
		vc := g.genVC(fn, c)
		if vc.Err != nil {
			// The contract no longer fits the function (a loop invariant names a local that was renamed, a
			// loop or call the contract is keyed to is gone) or the function left the verified subset.
			// Nothing was proved and nothing was refuted: undecided, which is not a violation. It is
			// reported, counted as an obligation that was not discharged, and listed in the evidence.
			undecided = append(undecided, shortFuncName(fn)+variantSuffix(c)+": "+vc.Err.Error())
			continue
		}
		vcs = append(vcs, vc)
		fuc = append(fuc, shortFuncName(fn)+variantSuffix(c))
	}
	if len(infra) > 0 {
		for _, m := range infra {
			fmt.Fprintln(os.Stderr, "govc: infrastructure error:", m)
		}
		return 2
	}
	// keep only obligations owned by this property
	type findingOb struct {
		vc *FnVC
		ob *Obligation
		f  *Finding
	}
	var findingObs []findingOb
	nOb := 0
	for _, vc := range vcs {
		var keep []*Obligation
		for _, ob := range vc.Obs {
			if owns(prop, vc.Contract, ob) {
				if f := lookupFinding(fByOb, ob.Name); f != nil {
					// known finding: not solved as an ordinary obligation (it is expected to fail)
					findingObs = append(findingObs, findingOb{vc, ob, f})
					nOb++
					continue
				}
				keep = append(keep, ob)
			}
		}
		vc.Obs = keep
		nOb += len(keep)
		for k := range vc.UsedContr {
			if c := g.contracts.Funcs[k]; c != nil && c.Assumed {
				trusted["assumed contract: "+k] = true
			}
		}
		for _, a := range vc.Axioms {
			trusted["definitional axiom: "+a] = true
		}
		for _, a := range vc.CallSite {
			trusted[a] = true
		}
	}
	if nOb == 0 && len(vios) == 0 && len(undecided) == 0 {
		fmt.Fprintf(os.Stderr, "govc: no obligations generated for %s (vacuous check)\n", prop)
		return 2
	}
	timeout := 20
	if thorough {
		timeout = 120
	}
	if v := os.Getenv("GOVC_TIMEOUT"); v != "" {
		timeout, _ = strconv.Atoi(v)
	}
	tSolve := time.Now()
	results := g.solveAll(vcs, timeout, thorough)
	// Undecided answers (timeout/unknown) are retried one at a time with every solver and a longer
	// limit before they count: under machine load a normally sub-second query can exceed the limit.
	for i, r := range results {
		if r.Status == "timeout" || r.Status == "unknown" || r.Status == "error" {
			if r.Ob.Cover {
				continue
			}
			r2 := g.solveOne(r.VC, r.Ob, timeout*4, true)
			r2.Ms += r.Ms
			results[i] = r2
		}
	}
	solveS := time.Since(tSolve).Seconds()

	var samples []obSample
	canaryGroup := map[string]bool{}
	witnessObs := map[string][]*Result{}
	canaryBase := regexp.MustCompile(`@\d+$`)
	obligations, discharged, canaries, canOK, covers, covOK := 0, 0, 0, 0, 0, 0
	var known []string
	var solverMs int64
	exit := 0
	for _, r := range results {
		solverMs += r.Ms
		ob := r.Ob
		switch {
		case ob.Canary:
			// a canary clause is checked at every return point; it must be refuted at one of them
			base := canaryBase.ReplaceAllString(ob.Name, "")
			if _, seen := canaryGroup[base]; !seen {
				canaryGroup[base] = false
			}
			if r.OK {
				canaryGroup[base] = true
			}
			if ob.MustWitness {
				witnessObs[base] = append(witnessObs[base], r)
			}
			continue
		case ob.Cover:
			covers++
			if r.Status == "sat" {
				covOK++
			} else if r.Status == "unsat" {
				fmt.Fprintf(os.Stderr, "govc: cover %s is unreachable: contradictory precondition or dead path\n", ob.Name)
				if ob.Kind == "vacuity" {
					exit = 2
				}
			}
			continue
		}
		f := lookupFinding(fByOb, ob.Name)
		if f != nil && (f.Excuse == "" || f.Excuse == "true") {
			// a finding with no excuse predicate: the obligation is expected to fail as a whole
			if !r.OK {
				known = append(known, fmt.Sprintf("KNOWN-FINDING: property=%s %s (obligation %s)", prop, f.What, ob.Name))
			}
			samples = append(samples, obSample{ob.Name, r.Status, r.Solver, r.Ms, ob.Pos, "known finding (no excuse): " + f.What})
			continue
		}
		obligations++
		if f != nil {
			// excused finding: must hold outside the excuse, is expected to fail inside it
			rOut := g.solveExcused(r.VC, ob, timeout, thorough, false)
			rIn := g.solveExcused(r.VC, ob, 8, false, true) // expected to fail: a short limit suffices
			solverMs += rOut.Ms + rIn.Ms
			if !rIn.OK {
				known = append(known, fmt.Sprintf("KNOWN-FINDING: property=%s %s (obligation %s, excuse: %s)", prop, f.What, ob.Name, f.Excuse))
			}
			r = rOut
			r.Ob = ob
		}
		samples = append(samples, obSample{ob.Name, r.Status, r.Solver, r.Ms, ob.Pos, ob.Desc})
		if r.OK {
			discharged++
			continue
		}
		detail := fmt.Sprintf("obligation not discharged: solver answer %s (%s)", r.Status, r.Solver)
		if r.Detail != "" {
			detail += "; " + r.Detail
		}
		if r.Case >= 0 {
			detail += fmt.Sprintf("; failing case %d of the split", r.Case)
		}
		vios = append(vios, vio{name: ob.Name, detail: detail, output: r.Output, res: r})
	}
	for base, ok := range canaryGroup {
		if rs := witnessObs[base]; len(rs) > 0 {
			// a witness clause: an obligation of the property (some execution must reach the state)
			obligations++
			if ok {
				discharged++
				samples = append(samples, obSample{base, "sat", "", 0, rs[0].Ob.Pos, "witness found: " + rs[0].Ob.Desc})
				continue
			}
			allUnsat := true
			for _, r := range rs {
				if r.Status != "unsat" {
					allUnsat = false
				}
			}
			if allUnsat {
				vios = append(vios, vio{name: base, detail: "witness not found: no execution of the function ends in the required state (every return point refutes it)", res: nil})
			} else {
				fmt.Fprintf(os.Stderr, "govc: witness %s was neither found nor refuted (solver gave no definite answer)\n", base)
				exit = 2
			}
			continue
		}
		canaries++
		if ok {
			canOK++
		} else if len(vios) == 0 {
			fmt.Fprintf(os.Stderr, "govc: canary %s was not refuted: the encoding lost a fact\n", base)
			exit = 2
		}
	}
	for _, fo := range findingObs {
		ob, f := fo.ob, fo.f
		if f.Excuse == "" || f.Excuse == "true" {
			r := g.solveOne(fo.vc, ob, 8, false)
			solverMs += r.Ms
			if !r.OK {
				known = append(known, fmt.Sprintf("KNOWN-FINDING: property=%s %s (obligation %s)", prop, f.What, ob.Name))
			}
			samples = append(samples, obSample{ob.Name, r.Status, r.Solver, r.Ms, ob.Pos, "known finding (no excuse): " + f.What})
			continue
		}
		obligations++
		rOut := g.solveExcused(fo.vc, ob, timeout, thorough, false)
		if !rOut.OK && rOut.Status != "sat" {
			rOut = g.solveExcused(fo.vc, ob, timeout*4, true, false)
		}
		rIn := g.solveExcused(fo.vc, ob, 8, false, true) // expected to fail: a short limit suffices
		solverMs += rOut.Ms + rIn.Ms
		if !rIn.OK {
			known = append(known, fmt.Sprintf("KNOWN-FINDING: property=%s %s (obligation %s, excuse: %s)", prop, f.What, ob.Name, f.Excuse))
		}
		samples = append(samples, obSample{ob.Name, rOut.Status, rOut.Solver, rOut.Ms, ob.Pos, ob.Desc + " [outside the excuse of a known finding: " + f.Excuse + "]"})
		if rOut.OK {
			discharged++
			continue
		}
		rOut.Ob = ob
		vios = append(vios, vio{name: ob.Name, detail: fmt.Sprintf("obligation not discharged outside the excuse of the known finding (%s): solver answer %s", f.Excuse, rOut.Status), output: rOut.Output, res: rOut})
	}
	for _, k := range known {
		fmt.Println(k)
	}
	// violations
	nv := 0
	if len(vios) > 0 {
		dir := filepath.Join(g.verifDir, "replay", prop)
		_ = os.MkdirAll(dir, 0o755)
		// One root cause (e.g. a call that became unknown) makes every frame obligation after it fail:
		// report at most two frame (assigns) obligations per function, count the rest.
		framePerFn := map[string]int{}
		suppressed := 0
		for _, v := range vios {
			if i := strings.Index(v.name, "/assigns#"); i >= 0 {
				framePerFn[v.name[:i]]++
				if framePerFn[v.name[:i]] > 2 {
					suppressed++
					nv++
					continue
				}
			}
			nv++
			path := filepath.Join(dir, mangle(v.name)+".txt")
			var b strings.Builder
			fmt.Fprintf(&b, "property: %s\nfailed obligation: %s\n%s\n", prop, v.name, v.detail)
			confirmed := false
			if v.res != nil {
				fmt.Fprintf(&b, "position: %s\nmeaning: %s\n", v.res.Ob.Pos, v.res.Ob.Desc)
				if v.res.Status == "sat" {
					rp := g.replay(v.res, prop, dir)
					b.WriteString(rp.text)
					confirmed = rp.confirmed
				}
				fmt.Fprintf(&b, "\n--- solver output ---\n%s\n", trim(v.res.Output, 6000))
			}
			_ = os.WriteFile(path, []byte(b.String()), 0o644)
			if confirmed {
				fmt.Printf("VIOLATION property=%s replay=%s\n", prop, path)
			} else {
				fmt.Printf("VIOLATION property=%s replay=%s no-failing-input-found\n", prop, path)
			}
			fmt.Fprintf(os.Stderr, "  failed: %s — %s\n", v.name, v.detail)
		}
		if suppressed > 0 {
			fmt.Fprintf(os.Stderr, "  (%d further failed frame obligations of the same functions are not listed separately)\n", suppressed)
		}
		// a failed obligation is assumed by the obligations after it, which can make canaries and
		// covers of the same function vacuous: the violation takes precedence over those guards
		exit = 1
	}
	// evidence
	var tb []string
	for k := range trusted {
		tb = append(tb, k)
	}
	agg := func(f func(vc *FnVC) map[string]int) map[string]int {
		m := map[string]int{}
		for _, vc := range vcs {
			for k, v := range f(vc) {
				m[k] += v
			}
		}
		return m
	}
	unknown := agg(func(vc *FnVC) map[string]int { return vc.Unknown })
	for k := range unknown {
		tb = append(tb, "unknown callee (result and reachable heap havoc'd): "+k)
	}
	modelAss := map[string]bool{}
	for _, vc := range vcs {
		for k := range vc.Ctx.assumpt {
			modelAss[k] = true
		}
	}
	tb = append(tb, "golang.org/x/tools go/ssa construction and go/types (front end)", "SMT solvers z3 4.8.12, z3 5.1.0, cvc5 1.0.3")
	sort.Strings(tb)
	assumptions := []string{
		"sequential semantics: no other goroutine writes the heap a function reads; `go` statements are not executed; channel operations yield arbitrary values",
		"platform amd64: int/uint/uintptr are 64-bit bit-vectors (exact machine arithmetic, nothing treated as mathematical integers)",
		"slice capacities and string lengths are below 2^48 (address-space fact)",
		"obligations proved earlier in a function are assumed by later ones (assert-then-assume)",
	}
	for k := range modelAss {
		assumptions = append(assumptions, k)
	}
	// engine lemmas (theorems of 64-bit arithmetic stated where the encoding needs them): re-proved from
	// /verif/lemmas/<name>.smt2 by every solver that can in the thorough tier; in the quick tier they are
	// listed as assumptions (the lemma text carries its own hypotheses, so an instance adds nothing
	// beyond the theorem).
	if thorough {
		lemmaRe := regexp.MustCompile(`^engine lemma (\w+)`)
		for k := range modelAss {
			m := lemmaRe.FindStringSubmatch(k)
			if m == nil {
				continue
			}
			data, err := os.ReadFile(filepath.Join(g.verifDir, "lemmas", m[1]+".smt2"))
			if err != nil {
				fmt.Fprintf(os.Stderr, "govc: engine lemma %s: %v\n", m[1], err)
				return 2
			}
			win, _, detail := decide(string(data), 600, false)
			solverMs += win.ms
			obligations++
			samples = append(samples, obSample{"engine/lemma#" + m[1], win.status, win.solver, win.ms, "lemmas/" + m[1] + ".smt2", "engine lemma re-proved"})
			if win.status == "unsat" {
				discharged++
			} else {
				fmt.Fprintf(os.Stderr, "govc: engine lemma %s was not proved (%s %s): the encoding relies on an unproved fact\n", m[1], win.status, detail)
				exit = 2
			}
		}
	}
	if g.constGlobalUsed {
		assumptions = append(assumptions, "package-level variables that the loaded program only initialises with a constant and never assigns or takes the address of (e.g. the ua.Status* codes, which are vars) are read as that constant")
	}
	if g.nonNilGlobalUsed {
		assumptions = append(assumptions, "package-level pointer variables that the loaded program only initialises with the address of a composite literal and never assigns or takes the address of (e.g. uacp.DefaultClientACK) are non-nil")
	}
	for _, s := range g.contracts.Scan {
		assumptions = append(assumptions, "assume found in contract file: "+s)
	}
	for _, f := range fixed {
		if strings.Contains(f, "property="+prop+" ") {
			assumptions = append(assumptions, "repaired earlier, checked at full strength now: "+f)
		}
	}
	sort.Strings(assumptions)
	if len(samples) > 60 {
		// keep labelled obligations first
		sort.SliceStable(samples, func(i, j int) bool {
			return strings.Contains(samples[i].Name, "#") && !strings.Contains(samples[j].Name, "#")
		})
		samples = samples[:60]
	}
	// functions whose contract could not be applied: one undischarged obligation each, no violation
	sort.Strings(undecided)
	for _, u := range undecided {
		obligations++
		fmt.Printf("UNDECIDED property=%s %s\n", prop, u)
		fmt.Fprintf(os.Stderr, "govc: undecided (neither proved nor refuted; the contract does not fit the current code): %s\n", u)
	}
	if undecided == nil {
		undecided = []string{}
	}
	ev := map[string]interface{}{
		"property_id": prop,
		"tier":        tier,
		"seed":        seed,
		"level":       "proof",
		"coverage": map[string]interface{}{
			"obligations":              obligations,
			"discharged":               discharged,
			"checker_cmd":              fmt.Sprintf("/verif/bin/govc check %s %s  (VC generation over go/ssa of %s with -tags verif; per obligation a standalone SMT-LIB script raced on z3-new, z3, cvc5; timeout %ds)", prop, tier, g.repoDir, timeout),
			"trusted_base":             tb,
			"functions_under_contract": fuc,
			"samples":                  samples,
			"solver_time_s":            float64(solverMs) / 1000,
			"load_s":                   loadS,
			"solve_wall_s":             solveS,
			"inlined":                  agg(func(vc *FnVC) map[string]int { return vc.Inlined }),
			"abstracted_instructions":  agg(func(vc *FnVC) map[string]int { return vc.Abstract }),
			"unknown_callees":          unknown,
			"canaries":                 map[string]int{"total": canaries, "refuted": canOK},
			"covers":                   map[string]int{"total": covers, "reachable": covOK},
			"known_findings":           known,
			"bounded_standins":         []string{},
			"undecided_functions":      undecided,
			"explanation":              "every obligation generated from the current source of the functions under contract was discharged (unsat) unless listed as a violation; a function listed under undecided_functions could not be brought under its contract on this tree (counted as one undischarged obligation, not as a violation)",
		},
		"assumptions": assumptions,
		"wall_s":      time.Since(t0).Seconds(),
		"violations":  nv,
	}
	_ = os.MkdirAll(filepath.Join(g.verifDir, "evidence"), 0o755)
	data, _ := json.MarshalIndent(ev, "", " ")
	if err := os.WriteFile(filepath.Join(g.verifDir, "evidence", prop+".json"), data, 0o644); err != nil {
		fmt.Fprintf(os.Stderr, "govc: cannot write evidence: %v\n", err)
		return 2
	}
	fmt.Fprintf(os.Stderr, "govc: %s %s: %d obligations, %d discharged, %d canaries refuted of %d, %d/%d covers reachable, %d known findings, %d violations, %.1fs (load %.1fs)\n",
		prop, tier, obligations, discharged, canOK, canaries, covOK, covers, len(known), nv, time.Since(t0).Seconds(), loadS)
	return exit
}

func trim(s string, n int) string {
	if len(s) > n {
		return s[:n] + "\n...[truncated]"
	}
	return s
}

// solveExcused checks an obligation under the excuse predicate of a known finding (inside=true)
// or under its negation (inside=false).
func (g *Global) solveExcused(vc *FnVC, ob *Obligation, timeoutS int, thorough bool, inside bool) *Result {
	ex := ob.Excuse
	if ex == "" {
		ex = "true"
	}
	extra := "(assert " + ex + ")"
	if !inside {
		extra = "(assert (not " + ex + "))"
	}
	r := &Result{Ob: ob, VC: vc, Case: -1, Status: "unsat"}
	cases := []int{-1}
	if len(vc.Cases) > 0 {
		cases = nil
		for k := range vc.Cases {
			cases = append(cases, k)
		}
	}
	for _, k := range cases {
		win, _, detail := decide(vc.script(ob, k, extra, nil), timeoutS, false)
		r.Ms += win.ms
		r.Solver = win.solver
		if win.status != "unsat" {
			r.Status, r.Output, r.Case, r.Detail = win.status, win.out, k, detail
			break
		}
	}
	r.OK = r.Status == "unsat"
	return r
}
