package main

// Verification condition generation: go/ssa -> SMT-LIB (passive encoding with reach conditions).

import (
	"math/big"
	"fmt"
	"go/token"
	"go/types"
	"sort"
	"strconv"
	"strings"

	"golang.org/x/tools/go/ssa"
)

type Obligation struct {
	Name   string
	Prop   string // owning property ("" = primary property of the function)
	Kind   string
	Goal   string // formula that must be valid given the prefix
	Canary bool   // expected to FAIL (sat)
	MustWitness bool // a canary whose refutation is REQUIRED by the property: not finding one is a violation
	Cover  bool   // reachability cover: Goal negation must be SAT, i.e. goal "false under reach" must fail
	Pos    string
	Desc   string
	Index  int // position in Items
	Excuse string
	Finding bool // listed in known_findings.txt
	Witness string // replay: an extra assertion preferred when asking for a counterexample (e.g. a large request)
}

type Item struct {
	Text string
	Ob   *Obligation
	Case bool // position where the assumption of the current case of a split is inserted
}

type FnVC struct {
	Fn        *ssa.Function
	Contract  *Contract
	Ctx       *Ctx
	Items     []Item
	Obs       []*Obligation
	Inlined   map[string]int
	Unknown   map[string]int
	Abstract  map[string]int
	UsedContr map[string]bool // contracts of callees used (assumed or verified)
	NInstr    int
	Err       error
	Params    []Val
	ParamName []string
	EntryHeap *Heap
	ModelQ    []string // terms worth querying in a model
	Cases     []string // case split (terms over the entry state)
	Axioms    []string // definitional axioms assumed
	CallSite  []string // call-site contracts applied (assumed)
}

type placeKind int

const (
	plField placeKind = iota
	plCell
	plElem
	plObj
	plArr
)

type Place struct {
	kind placeKind
	key  string
	ref  string
	idx  string
	ty   types.Type
}

type retRec struct {
	reach   string
	results []Val
	heap    *Heap
}

type deferRec struct {
	instr *ssa.Defer
	guard string
	fr    *frame
}

type closureInfo struct {
	fn       *ssa.Function
	bindings []Val
}

type frame struct {
	fn             *ssa.Function
	prefix         string
	depth          int
	params         map[string]Val
	vals           map[ssa.Value]Val
	places         map[ssa.Value]*Place
	closures       map[ssa.Value]*closureInfo
	reach          map[*ssa.BasicBlock]string
	heapEnd        map[*ssa.BasicBlock]*Heap
	edge           map[[2]int]string
	rets           []retRec
	defers         []deferRec
	cur            *ssa.BasicBlock
	curReach       string
	heap           *Heap
	contract       *Contract
	top            bool
	loops          map[*ssa.BasicBlock]*loopInfo
	stack          []*ssa.Function
	lets           map[string]Val
	entryH         *Heap
	entryA         string
	kindCtr        map[string]int
	pendingClosure *closureInfo
}

type loopInfo struct {
	header  *ssa.BasicBlock
	ordinal int
	blocks  map[*ssa.BasicBlock]bool
	backs   []*ssa.BasicBlock
	spec    *LoopSpec
	dec0    string
	decTy   types.Type
	names   map[string]Val // names resolved at header (after havoc)
	frameKeys []frameKey
}

type frameKey struct {
	key  string
	refs []string
}

type Tr struct {
	G             *Global
	C             *Ctx
	vc            *FnVC
	sliceConstLen map[string]int64
	topFrame      *frame
	addrSeen      map[string]bool
	pure          int
	inCallback    int
	epochA        map[int]string    // heap epoch -> allocation counter at its start
	ifaceDyn      map[string]types.Type // interface-valued term -> its evident dynamic type (or the nil interface)
	heapA         map[string]string // heap array term -> allocation counter when it was written
	closureBindings []Val
	callTexts     map[token.Pos]string
	typeVars      map[string]types.Type // type variables of the generic contract being applied
}

// pure > 0: a Go function is being evaluated inside a specification (possibly under a quantifier):
// terms are expanded in place, nothing is emitted, obligations are not generated, writes are errors.
func (tr *Tr) raw(s string) {
	if tr.pure > 0 {
		if strings.HasPrefix(s, "(declare-const") {
			vfail("a Go function called from a specification needs a fresh value (unknown result); it is not pure")
		}
		return
	}
	tr.vc.Items = append(tr.vc.Items, Item{Text: s})
}

var defCtr int

func (tr *Tr) define(sortS, term, hint string) string {
	// a conditional value of a sort that occurs inside quantifier patterns (references, slices, heap
	// arrays): always named, and named by a declared constant (solvers reject `ite` in patterns)
	condRef := strings.HasPrefix(term, "(ite ") && (sortS == "Int" || sortS == "Slice" || strings.HasPrefix(sortS, "R.") || strings.HasPrefix(sortS, "(Array "))
	if tr.pure > 0 || len(term) < 48 && !strings.Contains(term, "\n") && !condRef {
		return term
	}
	defCtr++
	n := fmt.Sprintf("%s~%d", mangle(hint), defCtr)
	if condRef || strings.HasPrefix(sortS, "(Array Int ") && (strings.HasPrefix(term, "(ite ") || strings.Contains(term, "~")) {
		// a heap version built from other definitions (a merge, or a store of a defined value): a
		// declared name with a defining equation, not a macro -- quantifier patterns mention heap
		// versions, and a macro would put the `ite`s of its expansion into the pattern
		tr.raw(fmt.Sprintf("(declare-const %s %s)", n, sortS))
		tr.raw(fmt.Sprintf("(assert (= %s %s))", n, term))
		return n
	}
	tr.raw(fmt.Sprintf("(define-fun %s () %s %s)", n, sortS, term))
	if d, ok := storeDefs[term]; ok {
		storeDefs[n] = d
	}
	return n
}

func (tr *Tr) declareConst(sortS, hint string) string {
	defCtr++
	n := fmt.Sprintf("%s?%d", mangle(hint), defCtr)
	tr.raw(fmt.Sprintf("(declare-const %s %s)", n, sortS))
	return n
}

func (tr *Tr) assume(reach, f string) {
	if f == "true" {
		return
	}
	tr.raw("(assert " + implies(reach, f) + ")")
}

func (tr *Tr) oblige(fr *frame, kind, label, prop, reach, f string, pos token.Pos, desc string) *Obligation {
	if tr.pure > 0 {
		return &Obligation{} // specifications are evaluated where their value is defined; no obligations
	}
	name := tr.obName(fr, kind, label)
	ob := &Obligation{Name: name, Kind: kind, Prop: prop, Goal: implies(reach, f), Desc: desc}
	if pos.IsValid() {
		p := tr.G.prog.Fset.Position(pos)
		ob.Pos = fmt.Sprintf("%s:%d", strings.TrimPrefix(p.Filename, tr.G.repoDir+"/"), p.Line)
	}
	if f := lookupFinding(tr.G.findings, name); f != nil {
		ob.Finding = true
	}
	if f := lookupFinding(tr.G.findings, name); f != nil && f.Excuse != "" && f.Excuse != "true" && tr.topFrame != nil {
		s, err := parseSpec(f.Excuse)
		if err != nil {
			vfail("known finding %s: excuse: %v", name, err)
		}
		t, err := tr.entryEnv(tr.topFrame).evalBool(s)
		if err != nil {
			vfail("known finding %s: excuse: %v", name, err)
		}
		ob.Excuse = t
	}
	ob.Index = len(tr.vc.Items)
	tr.vc.Items = append(tr.vc.Items, Item{Ob: ob})
	tr.vc.Obs = append(tr.vc.Obs, ob)
	return ob
}

func (tr *Tr) obName(fr *frame, kind, label string) string {
	base := shortFuncName(tr.vc.Fn) + variantSuffix(tr.vc.Contract) + "/" + fr.prefix + kind
	if label != "" {
		base += "#" + label
		k := fr.kindCtr["L:"+kind+"#"+label]
		fr.kindCtr["L:"+kind+"#"+label]++
		if k > 0 {
			base += "@" + strconv.Itoa(k)
		}
		return base
	}
	k := fr.kindCtr[kind]
	fr.kindCtr[kind]++
	return base + "#" + strconv.Itoa(k)
}

func shortFuncName(f *ssa.Function) string {
	s := f.String()
	s = strings.ReplaceAll(s, "github.com/gopcua/opcua/", "")
	s = strings.ReplaceAll(s, "github.com/gopcua/opcua.", "opcua.")
	return s
}

// ---------- places ----------

// addr is the address of a by-value member (nested struct or array) of the object at base.
// Ground facts, emitted once per term: never nil, injective, distinct per member, and disjoint from
// allocated references (member addresses live in the negative integers).
func (tr *Tr) addr(structKey, field, base string) string {
	fn := tr.C.addrFn(structKey, field)
	t := app(fn, base)
	if !tr.addrSeen[t] && tr.pure == 0 {
		tr.addrSeen[t] = true
		tr.C.declare("owner", "(declare-fun owner (Int) Int)")
		// owner: the allocated object a member address lies in (members of members included)
		tr.raw(fmt.Sprintf("(assert (and (< %s 0) (= (%s!inv %s) %s) (= (addrtag %s) %d) (= (owner %s) (ite (< %s 0) (owner %s) %s))))",
			t, fn, t, base, t, tr.C.addrTag[fn], t, base, base, base))
	}
	return t
}

// noteEpoch records the allocation counter at the start of a heap epoch (after a havoc): everything
// stored in a heap array of that epoch that has not been written since is below it.
func (tr *Tr) noteEpoch(h *Heap, a string) string {
	if _, ok := tr.epochA[h.base]; !ok {
		tr.epochA[h.base] = a
	}
	return a
}

// loadBound: an upper bound for references read from heap key `key`: the allocation counter at the
// time of the last write to the key (everything in it was allocated before that), which is what rules
// out that an object allocated later is already stored there.
func (tr *Tr) loadBound(fr *frame, key string) string {
	if t, ok := fr.heap.m[key]; ok {
		if a, ok := tr.heapA[t]; ok {
			return a
		}
		return tr.curA(fr)
	}
	if a, ok := tr.epochA[fr.heap.base]; ok {
		return a
	}
	return tr.curA(fr)
}

// preExisting: reference r denotes memory that existed when the function was entered (A0 = entry
// allocation counter). Member addresses are negative; they are as old as the object that owns them.
func (tr *Tr) preExisting(r, A0 string) string {
	tr.C.declare("owner", "(declare-fun owner (Int) Int)")
	return ite(app("<", r, "0"), app("<", app("owner", r), A0), app("<", r, A0))
}

func (tr *Tr) fieldPlace(ref string, T types.Type, st *types.Struct, i int) *Place {
	ft := st.Field(i).Type()
	switch u := ft.Underlying().(type) {
	case *types.Struct:
		return &Place{kind: plObj, ref: tr.addr(structKey(T, st), fieldName(st, i), ref), ty: ft}
	case *types.Array:
		return &Place{kind: plArr, key: tr.C.elemKey(tr.C.sortOf(u.Elem())), ref: tr.addr(structKey(T, st), fieldName(st, i), ref), ty: ft}
	}
	return &Place{kind: plField, key: tr.C.fieldKey(T, st, i), ref: ref, ty: ft}
}

func (tr *Tr) placeOfPtr(ref string, elem types.Type) *Place {
	switch u := elem.Underlying().(type) {
	case *types.Struct:
		return &Place{kind: plObj, ref: ref, ty: elem}
	case *types.Array:
		return &Place{kind: plArr, key: tr.C.elemKey(tr.C.sortOf(u.Elem())), ref: ref, ty: elem}
	}
	return &Place{kind: plCell, key: tr.C.cellKey(tr.C.sortOf(elem)), ref: ref, ty: elem}
}

func (tr *Tr) loadPlace(pl *Place, h *Heap) Val {
	switch pl.kind {
	case plField, plCell, plArr:
		return Val{T: sel(tr.C.hget(h, pl.key), pl.ref), Ty: pl.ty}
	case plElem:
		return Val{T: sel(sel(tr.C.hget(h, pl.key), pl.ref), pl.idx), Ty: pl.ty}
	case plObj:
		st := pl.ty.Underlying().(*types.Struct)
		srt := tr.C.structSort(pl.ty, st)
		if st.NumFields() == 0 {
			return Val{T: "mk_" + srt, Ty: pl.ty}
		}
		var fs []string
		for i := 0; i < st.NumFields(); i++ {
			fs = append(fs, tr.loadPlace(tr.fieldPlace(pl.ref, pl.ty, st, i), h).T)
		}
		return Val{T: "(mk_" + srt + " " + strings.Join(fs, " ") + ")", Ty: pl.ty}
	}
	panic("bad place")
}

func (tr *Tr) storePlace(pl *Place, h *Heap, v string) {
	switch pl.kind {
	case plField, plCell, plArr:
		old := tr.C.hget(h, pl.key)
		h.m[pl.key] = tr.define(tr.C.heapSort[pl.key], sto(old, pl.ref, v), pl.key)
		tr.heapA[h.m[pl.key]] = tr.C.hget(h, "ALLOC")
	case plElem:
		old := tr.C.hget(h, pl.key)
		h.m[pl.key] = tr.define(tr.C.heapSort[pl.key], sto(old, pl.ref, sto(sel(old, pl.ref), pl.idx, v)), pl.key)
		tr.heapA[h.m[pl.key]] = tr.C.hget(h, "ALLOC")
	case plObj:
		st := pl.ty.Underlying().(*types.Struct)
		srt := tr.C.structSort(pl.ty, st)
		for i := 0; i < st.NumFields(); i++ {
			tr.storePlace(tr.fieldPlace(pl.ref, pl.ty, st, i), h, app(srt+"."+fieldName(st, i), v))
		}
	}
}

// keys touched by a store to the place (for mod-sets)
func (tr *Tr) placeKeys(pl *Place, out map[string]bool) {
	switch pl.kind {
	case plObj:
		st := pl.ty.Underlying().(*types.Struct)
		for i := 0; i < st.NumFields(); i++ {
			tr.placeKeys(tr.fieldPlace("0", pl.ty, st, i), out)
		}
	default:
		out[pl.key] = true
	}
}

func (tr *Tr) globalRef(o types.Object) string {
	n := "glob_" + mangle(o.Pkg().Path()+"."+o.Name())
	if !tr.C.declared[n] {
		tr.C.declare(n, fmt.Sprintf("(declare-const %s Int)", n))
		tr.C.globals = append(tr.C.globals, n)
	}
	return n
}

// ---------- value helpers ----------

func (tr *Tr) wf(v Val) string {
	switch v.Ty.Underlying().(type) {
	case *types.Slice:
		z := bvI(0, 64)
		lim := bvI(1<<48, 64)
		return and(app("bvsle", z, app("s.len", v.T)), app("bvsle", app("s.len", v.T), app("s.cap", v.T)),
			app("bvsle", z, app("s.off", v.T)), app("bvslt", app("s.cap", v.T), lim), app("bvslt", app("s.off", v.T), lim),
			implies(eq(app("s.arr", v.T), "0"), eq(app("s.cap", v.T), z)))
	case *types.Basic:
		if isString(v.Ty) {
			return and(app("bvsle", bvI(0, 64), app("slen", v.T)), app("bvslt", app("slen", v.T), bvI(1<<48, 64)))
		}
	case *types.Map:
		// maps of different Go types are different objects (their SMT representation shares heap arrays
		// per key/value sort, so the distinction is stated through a type tag of the reference)
		tr.C.declare("maptype", "(declare-fun maptype (Int) Int)")
		return and(app(">=", v.T, "0"), implies(not(eq(v.T, "0")), eq(app("maptype", v.T), strconv.Itoa(tr.C.typeID(v.Ty.Underlying())))))
	case *types.Chan, *types.Signature:
		return app(">=", v.T, "0")
	case *types.Interface:
		return and(app(">=", app("i.typ", v.T), "0"), implies(eq(app("i.typ", v.T), "0"), eq(app("i.val", v.T), "0")))
	}
	return "true"
}

// allocated-ness: any reference obtained from the heap or parameters is below the allocation counter
func (tr *Tr) belowAlloc(v Val, A string) string {
	switch v.Ty.Underlying().(type) {
	case *types.Slice:
		return app("<", app("s.arr", v.T), A)
	case *types.Pointer:
		// the address of a member (negative) lies in an object that is itself allocated
		tr.C.declare("owner", "(declare-fun owner (Int) Int)")
		return and(app("<", v.T, A), implies(app("<", v.T, "0"), app("<", app("owner", v.T), A)))
	case *types.Map, *types.Chan:
		return app("<", v.T, A)
	case *types.Interface:
		return app("<", app("i.val", v.T), A) // boxes are negative (see box axioms), pointers are allocated
	}
	return "true"
}

func (tr *Tr) freshVal(t types.Type, hint string) Val {
	if tup, ok := t.(*types.Tuple); ok {
		var vs []Val
		for i := 0; i < tup.Len(); i++ {
			vs = append(vs, tr.freshVal(tup.At(i).Type(), hint))
		}
		return Val{Tuple: vs, Ty: t}
	}
	n := tr.declareConst(tr.C.sortOf(t), hint)
	return Val{T: n, Ty: t}
}

func (tr *Tr) equal(a, b Val) string {
	if _, ok := a.Ty.Underlying().(*types.Slice); ok {
		// slices compare only against nil
		return and(eq(app("s.arr", a.T), app("s.arr", b.T)), eq(app("s.len", a.T), app("s.len", b.T)), eq(app("s.off", a.T), app("s.off", b.T)))
	}
	return eq(a.T, b.T)
}

func (tr *Tr) shift(left bool, a, b Val) string {
	w := intWidth(a.Ty)
	bw := intWidth(b.Ty)
	cnt := b.T
	switch {
	case bw < w:
		cnt = fmt.Sprintf("((_ zero_extend %d) %s)", w-bw, b.T)
	case bw > w:
		lim := bvI(int64(w), bw)
		cnt = fmt.Sprintf("((_ extract %d 0) %s)", w-1, ite(app("bvuge", b.T, lim), lim, b.T))
	}
	if left {
		return app("bvshl", a.T, cnt)
	}
	if isUnsigned(a.Ty) {
		return app("bvlshr", a.T, cnt)
	}
	return app("bvashr", a.T, cnt)
}

func (tr *Tr) convert(v Val, t types.Type) Val {
	st, dt := v.Ty, t
	switch {
	case isInt(st) && isInt(dt):
		sw, dw := intWidth(st), intWidth(dt)
		switch {
		case sw == dw:
			return Val{T: v.T, Ty: t}
		case sw > dw:
			return Val{T: fmt.Sprintf("((_ extract %d 0) %s)", dw-1, v.T), Ty: t}
		case isUnsigned(st):
			return Val{T: fmt.Sprintf("((_ zero_extend %d) %s)", dw-sw, v.T), Ty: t}
		default:
			return Val{T: fmt.Sprintf("((_ sign_extend %d) %s)", dw-sw, v.T), Ty: t}
		}
	case tr.C.sortOf(st) == tr.C.sortOf(dt) && !isFloat(st) && !isFloat(dt) && !(isString(st) != isString(dt)):
		return Val{T: v.T, Ty: t}
	case isFloat(st) && isFloat(dt) && intWidth(st) == intWidth(dt):
		return Val{T: v.T, Ty: t}
	case isFloat(st) && isInt(dt):
		// truncation toward zero; SMT-LIB leaves the result unspecified for NaN and out-of-range values,
		// which is Go's "implementation-dependent"
		op := "fp.to_sbv"
		if isUnsigned(dt) {
			op = "fp.to_ubv"
		}
		return Val{T: fmt.Sprintf("((_ %s %d) RTZ %s)", op, intWidth(dt), toFP(v.T, intWidth(st))), Ty: t}
	case isInt(st) && isFloat(dt):
		// round to nearest even; the bit pattern of the result is tied to the exact value by an assumption
		fn := "conv_" + sortTag(tr.C.sortOf(st)) + "_" + mangle(shortTypeName(st)) + "_to_" + mangle(shortTypeName(dt))
		tr.C.declare(fn, fmt.Sprintf("(declare-fun %s (%s) %s)", fn, tr.C.sortOf(st), tr.C.sortOf(dt)))
		r := app(fn, v.T)
		eb, sb := 11, 53
		if intWidth(dt) == 32 {
			eb, sb = 8, 24
		}
		op := "to_fp"
		if isUnsigned(st) {
			op = "to_fp_unsigned"
		}
		tr.assume("true", app("=", toFP(r, intWidth(dt)), fmt.Sprintf("((_ %s %d %d) RNE %s)", op, eb, sb, v.T)))
		return Val{T: r, Ty: t}
	}
	// everything else (int<->float, string<->bytes, ...) is an uninterpreted conversion function
	fn := "conv_" + sortTag(tr.C.sortOf(st)) + "_" + mangle(shortTypeName(st)) + "_to_" + mangle(shortTypeName(dt))
	tr.C.declare(fn, fmt.Sprintf("(declare-fun %s (%s) %s)", fn, tr.C.sortOf(st), tr.C.sortOf(dt)))
	tr.vc.Abstract["conversion:"+shortTypeName(st)+"->"+shortTypeName(dt)]++
	return Val{T: app(fn, v.T), Ty: t}
}

func ptrShaped(t types.Type) bool {
	switch t.Underlying().(type) {
	case *types.Pointer, *types.Map, *types.Chan, *types.Signature:
		return true
	}
	return false
}

func (tr *Tr) makeIface(v Val) string {
	if _, ok := v.Ty.Underlying().(*types.Interface); ok {
		return v.T
	}
	id := strconv.Itoa(tr.C.typeID(v.Ty))
	if ptrShaped(v.Ty) {
		return app("mkiface", id, v.T)
	}
	srt := tr.C.sortOf(v.Ty)
	b, u := tr.C.boxFn(srt)
	bx := app(b, v.T)
	tr.raw("(assert " + and(eq(app(u, bx), v.T), app("<", bx, "0")) + ")")
	return app("mkiface", id, bx)
}

// noteDyn records that the interface value denoted by term has dynamic type t (or is the nil interface).
func (tr *Tr) noteDyn(term string, t types.Type) {
	if tr.ifaceDyn == nil {
		tr.ifaceDyn = map[string]types.Type{}
	}
	tr.ifaceDyn[term] = t
}

func (tr *Tr) unboxIface(x string, t types.Type) Val {
	if ptrShaped(t) {
		return Val{T: app("i.val", x), Ty: t}
	}
	if _, ok := t.Underlying().(*types.Interface); ok {
		return Val{T: x, Ty: t}
	}
	_, u := tr.C.boxFn(tr.C.sortOf(t))
	return Val{T: app(u, app("i.val", x)), Ty: t}
}

// ---------- function-level driver ----------

// genVC translates the function twice with the same context. Heap keys are discovered lazily; a
// key first touched after a control-flow merge of heaps from different epochs would otherwise be
// missing from that merge (sound, but it loses "this array is unchanged" and makes frame obligations
// fail). The first pass only serves to register every key; the second pass is the one that is used.
func (g *Global) genVC(fn *ssa.Function, contract *Contract) (vc *FnVC) {
	C := newCtx()
	first := g.genVCpass(fn, contract, C)
	if first.Err != nil {
		return first
	}
	for _, c := range g.contracts.Order { // after-clauses record use per pass
		for _, a := range c.After {
			a.Used = false
		}
	}
	return g.genVCpass(fn, contract, C)
}

func (g *Global) genVCpass(fn *ssa.Function, contract *Contract, C *Ctx) (vc *FnVC) {
	storeDefs = map[string][2]string{}
	vc = &FnVC{Fn: fn, Contract: contract, Ctx: C, Inlined: map[string]int{}, Unknown: map[string]int{}, Abstract: map[string]int{}, UsedContr: map[string]bool{}}
	tr := &Tr{G: g, C: C, vc: vc, sliceConstLen: map[string]int64{}, addrSeen: map[string]bool{}, epochA: map[int]string{}, heapA: map[string]string{}}
	defer func() {
		if r := recover(); r != nil {
			if ve, ok := r.(vcErr); ok {
				vc.Err = ve
				return
			}
			panic(r)
		}
	}()
	if len(fn.Blocks) == 0 {
		vc.Err = fmt.Errorf("function %s has no body", fn)
		return
	}
	h0 := &Heap{base: newEpoch(), m: map[string]string{}}
	A0 := "A0"
	C.declare("A0", "(declare-const A0 Int)")
	tr.raw("(assert (>= A0 1))")
	C.regHeap("ALLOC", "Int")
	h0.m["ALLOC"] = A0
	tr.epochA[h0.base] = A0
	fr := tr.newFrame(fn, "", 0, nil)
	fr.top = true
	tr.topFrame = fr
	fr.contract = contract
	fr.entryH = h0.clone()
	fr.entryA = A0
	vc.EntryHeap = fr.entryH
	// parameters
	for i, p := range fn.Params {
		n := "p_" + mangle(p.Name())
		tr.raw(fmt.Sprintf("(declare-const %s %s)", n, C.sortOf(p.Type())))
		v := Val{T: n, Ty: p.Type()}
		fr.vals[p] = v
		fr.params[p.Name()] = v
		if contract != nil && i < len(contract.Params) {
			// a contract shared by several functions (closures of one type) names the parameters itself
			fr.params[contract.Params[i]] = v
		}
		tr.assume("true", tr.wf(v))
		tr.assume("true", tr.belowAlloc(v, A0))
		vc.Params = append(vc.Params, v)
		vc.ParamName = append(vc.ParamName, p.Name())
	}
	for _, fv := range fn.FreeVars {
		n := "fv_" + mangle(fv.Name())
		tr.raw(fmt.Sprintf("(declare-const %s %s)", n, C.sortOf(fv.Type())))
		v := Val{T: n, Ty: fv.Type()}
		fr.vals[fv] = v
		fr.params[fv.Name()] = v
		tr.assume("true", tr.belowAlloc(v, A0))
		tr.assume("true", app(">", v.T, "0"))
	}
	// lets and requires
	if contract != nil {
		env := tr.entryEnv(fr)
		for _, l := range contract.Lets {
			v, err := env.evalVal(l.S)
			if err != nil {
				vfail("%s: let %s: %v", fn, l.Name, err)
			}
			if v.K != nil {
				v = env.coerce(v, tInt)
			}
			if v.T != "" && !v.Obj {
				v.T = tr.define(C.sortOf(v.Ty), v.T, "let_"+l.Name)
			}
			fr.lets[l.Name] = v
			env.names[l.Name] = v
		}
		for i, r := range contract.Requires {
			t, err := env.evalBool(r.S)
			if err != nil {
				vfail("%s: requires #%d: %v", fn, i, err)
			}
			tr.assume("true", t)
		}
		if !contract.Assumed {
			// `calls h` on a function that is verified: at entry h has not run
			for _, hn := range contract.Calls {
				if p, ok := fr.params[hn]; ok {
					if sig, isSig := p.Ty.Underlying().(*types.Signature); isSig {
						ranK, _ := tr.cbKeys(hn, sig.Results())
						tr.assume("true", not(sel(C.hget(fr.entryH, ranK), "0")))
					}
				}
			}
		}
		for _, u := range contract.Uses {
			ax := g.contracts.Preds[contract.PkgPath+".axiom "+u]
			if ax == nil {
				vfail("%s: uses unknown axiom %s", fn, u)
			}
			t, err := env.evalBool(ax.Body)
			if err != nil {
				vfail("%s: axiom %s: %v", fn, u, err)
			}
			tr.assume("true", t)
			vc.Axioms = append(vc.Axioms, u+": "+ax.Text)
		}
		// vacuity guard: the precondition must be satisfiable
		ob := tr.oblige(fr, "vacuity", "requires-sat", "", "true", "false", fn.Pos(), "precondition and type invariants are satisfiable (expects sat)")
		ob.Cover = true
		if len(contract.Splits) > 0 {
			var cs []string
			for i, s := range contract.Splits {
				t, err := env.evalBool(s.S)
				if err != nil {
					vfail("%s: split #%d: %v", fn, i, err)
				}
				cs = append(cs, t)
			}
			tr.oblige(fr, "split", "covers", "", "true", or(cs...), fn.Pos(), "the case split covers the precondition")
			vc.Cases = cs
			vc.Items = append(vc.Items, Item{Case: true})
		}
	}
	tr.body(fr, "true", h0)
	vc.NInstr = countInstr(fn)
	return vc
}

func countInstr(fn *ssa.Function) int {
	n := 0
	for _, b := range fn.Blocks {
		n += len(b.Instrs)
	}
	return n
}

type vcErr struct{ msg string }

func (v vcErr) Error() string { return v.msg }

func vfail(format string, a ...interface{}) { panic(vcErr{fmt.Sprintf(format, a...)}) }

func (tr *Tr) newFrame(fn *ssa.Function, prefix string, depth int, stack []*ssa.Function) *frame {
	return &frame{fn: fn, prefix: prefix, depth: depth, params: map[string]Val{}, vals: map[ssa.Value]Val{}, places: map[ssa.Value]*Place{},
		closures: map[ssa.Value]*closureInfo{}, reach: map[*ssa.BasicBlock]string{}, heapEnd: map[*ssa.BasicBlock]*Heap{}, edge: map[[2]int]string{},
		stack: append(append([]*ssa.Function{}, stack...), fn), lets: map[string]Val{}, kindCtr: map[string]int{}}
}

func (tr *Tr) entryEnv(fr *frame) *specEnv {
	names := map[string]Val{}
	for k, v := range fr.params {
		names[k] = v
	}
	for k, v := range fr.lets {
		names[k] = v
	}
	var pkg *types.Package
	if fr.fn.Pkg != nil {
		pkg = fr.fn.Pkg.Pkg
	}
	if fr.contract != nil && fr.contract.PkgPath != "" {
		if p := tr.G.typesPkg[fr.contract.PkgPath]; p != nil {
			pkg = p
		}
	}
	return &specEnv{tr: tr, pkg: pkg, names: names, heap: fr.entryH, old: fr.entryH, oldA: fr.entryA, curA: fr.entryA}
}

// ---------- CFG analysis ----------

func isBackEdge(from, to *ssa.BasicBlock) bool { return to.Dominates(from) }

func (tr *Tr) analyseLoops(fr *frame) {
	fr.loops = map[*ssa.BasicBlock]*loopInfo{}
	for _, b := range fr.fn.Blocks {
		for _, s := range b.Succs {
			if isBackEdge(b, s) {
				li := fr.loops[s]
				if li == nil {
					li = &loopInfo{header: s, blocks: map[*ssa.BasicBlock]bool{s: true}}
					fr.loops[s] = li
				}
				li.backs = append(li.backs, b)
				// natural loop
				stack := []*ssa.BasicBlock{b}
				for len(stack) > 0 {
					x := stack[len(stack)-1]
					stack = stack[:len(stack)-1]
					if li.blocks[x] {
						continue
					}
					li.blocks[x] = true
					stack = append(stack, x.Preds...)
				}
			}
		}
	}
	var hs []*ssa.BasicBlock
	for h := range fr.loops {
		hs = append(hs, h)
	}
	sort.Slice(hs, func(i, j int) bool { return hs[i].Index < hs[j].Index })
	for i, h := range hs {
		fr.loops[h].ordinal = i
		if fr.contract != nil {
			fr.loops[h].spec = fr.contract.Loops[i]
		}
	}
}

func topoOrder(fn *ssa.Function) []*ssa.BasicBlock {
	var order []*ssa.BasicBlock
	seen := map[*ssa.BasicBlock]bool{}
	var dfs func(b *ssa.BasicBlock)
	dfs = func(b *ssa.BasicBlock) {
		seen[b] = true
		for i := len(b.Succs) - 1; i >= 0; i-- {
			s := b.Succs[i]
			if !seen[s] && !isBackEdge(b, s) {
				dfs(s)
			}
		}
		order = append(order, b)
	}
	dfs(fn.Blocks[0])
	for i, j := 0, len(order)-1; i < j; i, j = i+1, j-1 {
		order[i], order[j] = order[j], order[i]
	}
	return order
}

// ---------- body translation ----------

func (tr *Tr) body(fr *frame, entryReach string, entryHeap *Heap) {
	tr.analyseLoops(fr)
	if !fr.top && len(fr.loops) > 0 {
		vfail("cannot inline %s: it has loops (give it a contract)", fr.fn)
	}
	order := topoOrder(fr.fn)
	for _, b := range order {
		fr.cur = b
		if b.Index == 0 {
			fr.curReach = entryReach
			fr.heap = entryHeap.clone()
		} else {
			tr.enterBlock(fr, b)
		}
		if li := fr.loops[b]; li != nil {
			tr.loopHeader(fr, li)
		} else {
			tr.phis(fr, b)
		}
		for _, ins := range b.Instrs {
			if _, ok := ins.(*ssa.Phi); ok {
				continue
			}
			tr.instr(fr, ins)
		}
		fr.reach[b] = fr.curReach
		fr.heapEnd[b] = fr.heap
	}
}

type inEdge struct {
	pred *ssa.BasicBlock
	cond string
}

func (tr *Tr) inEdges(fr *frame, b *ssa.BasicBlock, back bool) []inEdge {
	var es []inEdge
	for _, p := range b.Preds {
		if isBackEdge(p, b) != back {
			continue
		}
		r, ok := fr.reach[p]
		if !ok {
			continue // unreachable predecessor (e.g. recover block)
		}
		c := fr.edge[[2]int{p.Index, b.Index}]
		if c == "" {
			c = "true"
		}
		es = append(es, inEdge{p, and(r, c)})
	}
	return es
}

func (tr *Tr) enterBlock(fr *frame, b *ssa.BasicBlock) {
	es := tr.inEdges(fr, b, false)
	if len(es) == 0 {
		fr.curReach = "false"
		fr.heap = fr.heap.havocAll()
		return
	}
	var conds []string
	for i := range es {
		es[i].cond = tr.define("Bool", es[i].cond, fmt.Sprintf("%se%d_%d", fr.prefix, es[i].pred.Index, b.Index))
		conds = append(conds, es[i].cond)
	}
	fr.curReach = tr.define("Bool", or(conds...), fmt.Sprintf("%sreach%d", fr.prefix, b.Index))
	// heap merge
	fr.heap = tr.mergeHeaps(fr, es)
	fr.edge[[2]int{-1, b.Index}] = "" // marker
	fr.valsEdgeCache(b, es)
}

var edgeCache = map[*frame]map[*ssa.BasicBlock][]inEdge{}

func (fr *frame) valsEdgeCache(b *ssa.BasicBlock, es []inEdge) {
	m := edgeCache[fr]
	if m == nil {
		m = map[*ssa.BasicBlock][]inEdge{}
		edgeCache[fr] = m
	}
	m[b] = es
}

func (tr *Tr) mergeHeaps(fr *frame, es []inEdge) *Heap {
	if len(es) == 1 {
		return fr.heapEnd[es[0].pred].clone()
	}
	first := fr.heapEnd[es[0].pred]
	sameBase := true
	keys := map[string]bool{}
	for _, e := range es {
		h := fr.heapEnd[e.pred]
		if h.base != first.base {
			sameBase = false
		}
		for k := range h.m {
			keys[k] = true
		}
	}
	out := &Heap{base: first.base, ghostBase: first.ghostBase, m: map[string]string{}}
	if !sameBase {
		out.base = newEpoch()
		out.ghostBase = 0
		for _, k := range tr.C.sortedHeapKeys() {
			keys[k] = true
		}
	}
	var ks []string
	for k := range keys {
		ks = append(ks, k)
	}
	sort.Strings(ks)
	for _, k := range ks {
		t := tr.C.hget(fr.heapEnd[es[len(es)-1].pred], k)
		same := true
		for i := len(es) - 2; i >= 0; i-- {
			ti := tr.C.hget(fr.heapEnd[es[i].pred], k)
			if ti != t {
				same = false
			}
			t = ite(es[i].cond, ti, t)
		}
		if same {
			t = tr.C.hget(fr.heapEnd[es[0].pred], k)
		}
		out.m[k] = tr.define(tr.C.heapSort[k], t, k)
	}
	return out
}

func (tr *Tr) phis(fr *frame, b *ssa.BasicBlock) {
	es := edgeCache[fr][b]
	for _, ins := range b.Instrs {
		phi, ok := ins.(*ssa.Phi)
		if !ok {
			break
		}
		var t string
		for i := len(es) - 1; i >= 0; i-- {
			pi := predIndex(b, es[i].pred)
			v := tr.val(fr, phi.Edges[pi])
			if t == "" {
				t = tr.coerceVal(v, phi.Type()).T
			} else {
				t = ite(es[i].cond, tr.coerceVal(v, phi.Type()).T, t)
			}
		}
		if t == "" {
			t = tr.C.zero(phi.Type())
		}
		fr.vals[phi] = Val{T: tr.define(tr.C.sortOf(phi.Type()), t, fr.prefix+phi.Name()), Ty: phi.Type()}
	}
}

func predIndex(b, p *ssa.BasicBlock) int {
	for i, x := range b.Preds {
		if x == p {
			return i
		}
	}
	return -1
}

func (tr *Tr) coerceVal(v Val, t types.Type) Val {
	if v.Nil {
		return Val{T: tr.C.zero(t), Ty: t}
	}
	return v
}

// val returns the term of an SSA value.
func (tr *Tr) val(fr *frame, v ssa.Value) Val {
	if x, ok := fr.vals[v]; ok {
		return x
	}
	switch v := v.(type) {
	case *ssa.Const:
		return tr.constVal(v)
	case *ssa.Global:
		ref := tr.globalRef(v.Object())
		return Val{T: ref, Ty: v.Type()}
	case *ssa.Function:
		n := "fn_" + mangle(v.String())
		tr.C.declare(n, fmt.Sprintf("(declare-const %s Int)", n))
		fr.closures[v] = &closureInfo{fn: v}
		return Val{T: n, Ty: v.Type()}
	case *ssa.Builtin:
		return Val{T: "0", Ty: v.Type()}
	}
	vfail("%s: value %s (%T) used before definition", fr.fn, v.Name(), v)
	return Val{}
}

func (tr *Tr) constVal(c *ssa.Const) Val {
	t := c.Type()
	if c.Value == nil {
		return Val{T: tr.C.zero(t), Ty: t}
	}
	switch {
	case isBool(t):
		return Val{T: c.Value.String(), Ty: t}
	case isInt(t):
		if isUnsigned(t) {
			return Val{T: bvLit(bigFromU(c.Uint64()), intWidth(t)), Ty: t}
		}
		return Val{T: bvLit(bigFromI(c.Int64()), intWidth(t)), Ty: t}
	case isString(t):
		return Val{T: tr.C.strConst(constantString(c)), Ty: t}
	case isFloat(t):
		return Val{T: floatBits(c, intWidth(t)), Ty: t}
	}
	return Val{T: tr.C.zero(t), Ty: t}
}

// ---------- loops ----------

func (tr *Tr) loopNames(fr *frame, li *loopInfo, phiVals map[*ssa.Phi]Val) map[string]Val {
	names := map[string]Val{}
	for k, v := range fr.params {
		names[k] = v
	}
	for k, v := range fr.lets {
		names[k] = v
	}
	// Locals. A variable that is not modified in the loop is referenced inside the loop through a value
	// defined outside of it: that value is the variable throughout the loop. (Variables modified in the
	// loop have a header phi, handled below.) Variables not referenced in the loop at all fall back to
	// the nearest dominating reference, provided no other definition could reach the header.
	outside := func(v ssa.Value) bool {
		if ins, ok := v.(ssa.Instruction); ok && ins.Block() != nil {
			return !li.blocks[ins.Block()]
		}
		return true
	}
	amb := map[string]bool{}
	setName := func(n string, x ssa.Value) {
		val, ok := fr.vals[x]
		if !ok {
			if !isConstLike(x) {
				return
			}
			val = tr.val(fr, x)
		}
		if old, have := names[n]; have && old.T != val.T {
			if _, isParam := fr.params[n]; !isParam {
				amb[n] = true
			}
		}
		names[n] = val
	}
	inLoop := map[string]bool{}
	var lbs []*ssa.BasicBlock
	for b := range li.blocks {
		lbs = append(lbs, b)
	}
	sort.Slice(lbs, func(i, j int) bool { return lbs[i].Index < lbs[j].Index })
	for _, b := range lbs {
		for _, ins := range b.Instrs {
			d, ok := ins.(*ssa.DebugRef)
			if !ok || d.IsAddr || d.Object() == nil || !outside(d.X) {
				continue
			}
			if _, isPhiHere := d.X.(*ssa.Phi); isPhiHere && d.X.(*ssa.Phi).Block() == li.header {
				continue
			}
			inLoop[d.Object().Name()] = true
			setName(d.Object().Name(), d.X)
		}
	}
	seen := map[string]bool{}
	for b := li.header.Idom(); b != nil; b = b.Idom() {
		for i := len(b.Instrs) - 1; i >= 0; i-- {
			var n string
			var dx ssa.Value
			if phi, ok := b.Instrs[i].(*ssa.Phi); ok && phi.Comment != "" {
				// the merged value of a variable assigned on several branches
				n, dx = phi.Comment, phi
			} else if d, ok := b.Instrs[i].(*ssa.DebugRef); ok && !d.IsAddr && d.Object() != nil {
				n, dx = d.Object().Name(), d.X
			} else {
				continue
			}
			if seen[n] || inLoop[n] {
				continue
			}
			seen[n] = true
			// another definition between b and the header (every block on a path from b to the header is
			// dominated by b) that does not itself dominate the header makes this one stale
			stale := false
			for _, ob := range fr.fn.Blocks {
				if ob == b || !b.Dominates(ob) || ob.Dominates(li.header) || li.blocks[ob] || ob.Index > li.header.Index {
					continue
				}
				for _, oi := range ob.Instrs {
					if od, ok := oi.(*ssa.DebugRef); ok && !od.IsAddr && od.Object() != nil && od.Object().Name() == n && od.X != dx {
						stale = true
					}
				}
			}
			if stale {
				amb[n] = true
				continue
			}
			setName(n, dx)
		}
	}
	for n := range amb {
		delete(names, n)
	}
	// address-taken locals (captured by a closure, or & taken): the variable lives in a cell allocated
	// before the loop; its name denotes the content of the cell in the state the clause is evaluated in
	for _, b := range fr.fn.Blocks {
		if li.blocks[b] || !b.Dominates(li.header) {
			continue
		}
		for _, ins := range b.Instrs {
			d, ok := ins.(*ssa.DebugRef)
			if !ok || !d.IsAddr || d.Object() == nil {
				continue
			}
			al, ok := d.X.(*ssa.Alloc)
			if !ok || al.Comment != d.Object().Name() {
				continue
			}
			if _, have := names[al.Comment]; have {
				continue
			}
			if v, ok := fr.vals[al]; ok {
				names[al.Comment] = Val{T: v.T, Ty: al.Type(), Cell: true}
			}
		}
	}
	for _, ins := range li.header.Instrs {
		phi, ok := ins.(*ssa.Phi)
		if !ok {
			break
		}
		if phi.Comment != "" {
			names[phi.Comment] = phiVals[phi]
		}
	}
	// A value that is a conditional term (a slice or pointer merged from two branches) would put an `ite`
	// into the quantifier patterns of the clauses that mention the variable, and solvers reject such
	// patterns: name it by a constant with a defining equation.
	for k, v := range names {
		if v.T != "" && v.K == nil && v.Ty != nil && len(v.Tuple) == 0 && !v.Cell && strings.Contains(v.T, "(ite ") {
			v.T = tr.define(tr.C.sortOf(v.Ty), v.T, "lv_"+mangle(k))
			names[k] = v
		}
	}
	return names
}

func isConstLike(v ssa.Value) bool {
	switch v.(type) {
	case *ssa.Const, *ssa.Global, *ssa.Function:
		return true
	}
	return false
}

func (tr *Tr) loopEnv(fr *frame, names map[string]Val, heap *Heap) *specEnv {
	env := tr.entryEnv(fr)
	env.oldNames = env.names
	env.names = names
	env.heap = heap
	env.curA = tr.C.hget(heap, "ALLOC")
	return env
}

func (tr *Tr) loopHeader(fr *frame, li *loopInfo) {
	b := li.header
	es := edgeCache[fr][b]
	if b.Index == 0 {
		vfail("%s: loop header is the entry block", fr.fn)
	}
	entryReach := fr.curReach
	// values of phis on entry
	entryPhi := map[*ssa.Phi]Val{}
	var phis []*ssa.Phi
	for _, ins := range b.Instrs {
		phi, ok := ins.(*ssa.Phi)
		if !ok {
			break
		}
		phis = append(phis, phi)
		var t string
		for i := len(es) - 1; i >= 0; i-- {
			pi := predIndex(b, es[i].pred)
			v := tr.coerceVal(tr.val(fr, phi.Edges[pi]), phi.Type())
			if t == "" {
				t = v.T
			} else {
				t = ite(es[i].cond, v.T, t)
			}
		}
		entryPhi[phi] = Val{T: tr.define(tr.C.sortOf(phi.Type()), t, fr.prefix+phi.Name()+"_entry"), Ty: phi.Type()}
	}
	lab := strconv.Itoa(li.ordinal)
	// 1. invariant holds on entry
	if li.spec != nil {
		env := tr.loopEnv(fr, tr.loopNames(fr, li, entryPhi), fr.heap)
		for k, inv := range li.spec.Inv {
			t, err := env.evalBool(inv.S)
			if err != nil {
				vfail("%s: loop %d invariant %d: %v", fr.fn, li.ordinal, k, err)
			}
			tr.oblige(fr, "inv-entry", lab+"."+clauseLabel(inv, k), inv.Prop, entryReach, t, b.Instrs[0].Pos(), "loop invariant holds on entry: "+inv.Text)
		}
	}
	// 2. havoc loop-carried variables and the heap modified in the loop
	mod, all := tr.loopModSet(fr, li)
	if all {
		oldA := tr.C.hget(fr.heap, "ALLOC")
		fr.heap = fr.heap.havocAll()
		newA := tr.declareConst("Int", "A_loop")
		tr.assume("true", app(">=", newA, oldA))
		fr.heap.m["ALLOC"] = tr.noteEpoch(fr.heap, newA)
		tr.vc.Abstract["loop-havoc-all"]++
	} else {
		var ks []string
		for k := range mod {
			ks = append(ks, k)
		}
		sort.Strings(ks)
		for _, k := range ks {
			if k == "ALLOC" {
				oldA := tr.C.hget(fr.heap, "ALLOC")
				newA := tr.declareConst("Int", "A_loop")
				tr.assume("true", app(">=", newA, oldA))
				fr.heap.m["ALLOC"] = tr.noteEpoch(fr.heap, newA)
				continue
			}
			fr.heap.m[k] = tr.declareConst(tr.C.heapSort[k], k+"_loop")
		}
		// implicit frame invariant: the function's own assigns clause holds at every loop head
		// (objects that existed at function entry and are not assigned keep their entry contents).
		if fr.top && fr.contract != nil && fr.contract.HasAssigns {
			allowed := tr.assignTargets(fr, fr.contract, tr.entryEnv(fr))
			if star := allowed["*"]; star == nil || !star.all {
				for _, k := range ks {
					if k == "ALLOC" {
						continue
					}
					tg := allowed[k]
					if tg != nil && (tg.all || len(tg.inner) > 0) {
						continue
					}
					var refs []string
					if tg != nil {
						refs = tg.refs
					}
					cur, old := fr.heap.m[k], tr.C.hget(fr.entryH, k)
					r := tr.C.fresh("fr")
					conds := []string{tr.preExisting(r, fr.entryA)}
					for _, a := range refs {
						conds = append(conds, not(eq(r, a)))
					}
					tr.assume("true", fmt.Sprintf("(forall ((%s Int)) (! (=> %s (= (select %s %s) (select %s %s))) :pattern ((select %s %s))))",
						r, and(conds...), cur, r, old, r, cur, r))
					li.frameKeys = append(li.frameKeys, frameKey{key: k, refs: refs})
				}
			}
		}
	}
	curPhi := map[*ssa.Phi]Val{}
	for _, phi := range phis {
		v := tr.freshVal(phi.Type(), fr.prefix+phi.Name())
		tr.assume("true", tr.wf(v))
		tr.assume("true", tr.belowAlloc(v, tr.C.hget(fr.heap, "ALLOC")))
		fr.vals[phi] = v
		curPhi[phi] = v
		if phi.Comment == "rangeindex" && isInt(phi.Type()) {
			// the hidden index of a range loop over a slice/array/string/int: go/ssa starts it at -1 and adds
			// 1 while it stays below a length fixed before the loop, so it never goes below -1
			// and stays at least one below the largest value of its type (it is below the length)
			w := intWidth(phi.Type())
			maxv := new(big.Int).Sub(new(big.Int).Lsh(big.NewInt(1), uint(w-1)), big.NewInt(1))
			tr.assume("true", and(app("bvsge", v.T, bvI(-1, w)), app("bvslt", v.T, bvLit(maxv, w))))
		}
	}
	// 3. assume the invariant
	li.names = tr.loopNames(fr, li, curPhi)
	if li.spec != nil {
		env := tr.loopEnv(fr, li.names, fr.heap)
		for k, inv := range li.spec.Inv {
			t, err := env.evalBool(inv.S)
			if err != nil {
				vfail("%s: loop %d invariant %d: %v", fr.fn, li.ordinal, k, err)
			}
			tr.assume(entryReach, t)
		}
		if li.spec.Decreases != nil {
			v, err := env.evalVal(li.spec.Decreases.S)
			if err != nil {
				vfail("%s: loop %d decreases: %v", fr.fn, li.ordinal, err)
			}
			if v.K != nil {
				v = env.coerce(v, tInt)
			}
			li.dec0 = tr.define(tr.C.sortOf(v.Ty), v.T, "dec0")
			li.decTy = v.Ty
		}
	}
	fr.curReach = entryReach
}

func clauseLabel(c Clause, k int) string {
	if c.Label != "" {
		return c.Label
	}
	return strconv.Itoa(k)
}

// backEdge is called when control leaves block `from` towards loop header `to`.
func (tr *Tr) backEdge(fr *frame, from *ssa.BasicBlock, to *ssa.BasicBlock, cond string) {
	li := fr.loops[to]
	reach := and(fr.curReach, cond)
	lab := strconv.Itoa(li.ordinal)
	for _, fk := range li.frameKeys {
		r := tr.declareConst("Int", "frame_r")
		conds := []string{tr.preExisting(r, fr.entryA)}
		for _, a := range fk.refs {
			conds = append(conds, not(eq(r, a)))
		}
		goal := implies(and(conds...), eq(sel(tr.C.hget(fr.heap, fk.key), r), sel(tr.C.hget(fr.entryH, fk.key), r)))
		tr.oblige(fr, "inv-pres", lab+".frame."+fk.key, "", reach, goal, from.Instrs[len(from.Instrs)-1].Pos(), "loop body respects the function's assigns clause for "+fk.key)
	}
	if li.spec == nil {
		return
	}
	pi := predIndex(to, from)
	phiVals := map[*ssa.Phi]Val{}
	for _, ins := range to.Instrs {
		phi, ok := ins.(*ssa.Phi)
		if !ok {
			break
		}
		phiVals[phi] = tr.coerceVal(tr.val(fr, phi.Edges[pi]), phi.Type())
	}
	names := map[string]Val{}
	for k, v := range li.names {
		names[k] = v
	}
	for phi, v := range phiVals {
		if phi.Comment != "" {
			names[phi.Comment] = v
		}
	}
	env := tr.loopEnv(fr, names, fr.heap)
	for k, inv := range li.spec.Inv {
		t, err := env.evalBool(inv.S)
		if err != nil {
			vfail("%s: loop %d invariant %d (preservation): %v", fr.fn, li.ordinal, k, err)
		}
		tr.oblige(fr, "inv-pres", lab+"."+clauseLabel(inv, k), inv.Prop, reach, t, from.Instrs[len(from.Instrs)-1].Pos(), "loop invariant is preserved: "+inv.Text)
	}
	if li.spec.Decreases != nil {
		v, err := env.evalVal(li.spec.Decreases.S)
		if err != nil {
			vfail("%s: loop %d decreases: %v", fr.fn, li.ordinal, err)
		}
		if v.K != nil {
			v = env.coerce(v, tInt)
		}
		lt, ge := "bvslt", "bvsge"
		if isUnsigned(li.decTy) {
			lt, ge = "bvult", "bvuge"
		}
		f := and(app(ge, li.dec0, bvI(0, intWidth(li.decTy))), app(lt, v.T, li.dec0))
		tr.oblige(fr, "decreases", lab, li.spec.Decreases.Prop, reach, f, from.Instrs[len(from.Instrs)-1].Pos(), "loop measure decreases and is bounded below: "+li.spec.Decreases.Text)
	}
}
