package main

import (
	"fmt"
	"os"

	"golang.org/x/tools/go/packages"
	"golang.org/x/tools/go/ssa"
	"golang.org/x/tools/go/ssa/ssautil"
)

func main() {
	cfg := &packages.Config{Mode: packages.LoadAllSyntax, Dir: "/repo", BuildFlags: []string{"-tags", "verif"}}
	pkgs, err := packages.Load(cfg, os.Args[1])
	if err != nil {
		panic(err)
	}
	prog, spkgs := ssautil.AllPackages(pkgs, ssa.GlobalDebug|ssa.InstantiateGenerics)
	prog.Build()
	for _, p := range spkgs {
		for _, m := range p.Members {
			if f, ok := m.(*ssa.Function); ok && f.Name() == os.Args[2] {
				f.WriteTo(os.Stdout)
			}
		}
		if len(os.Args) > 3 {
			t := p.Type(os.Args[2])
			ms := prog.MethodSets.MethodSet(t.Type())
			_ = ms
			for _, f := range ssautil.AllFunctions(prog) {
				_ = f
			}
			fn := prog.LookupMethod(ptr(t), p.Pkg, os.Args[3])
			if fn != nil { fn.WriteTo(os.Stdout) }
		}
	}
	fmt.Println("ok")
}
