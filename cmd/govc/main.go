package main

// govc: contract-based deductive verification of Go (gopcua/opcua) via go/ssa + SMT.
//
// usage: govc check  <PROP> quick|thorough      run the check of one property
//        govc vc     <func-name-substring>       dump VC scripts of matching functions under contract
//        govc ssa    <func-name-substring>       dump SSA
//        govc list                               list functions under contract and their properties

import (
	"fmt"
	"go/ast"
	"go/parser"
	"go/types"
	"os"
	"path/filepath"
	"sort"
	"strings"

	"golang.org/x/tools/go/packages"
	"golang.org/x/tools/go/ssa"
	"golang.org/x/tools/go/ssa/ssautil"
)

type Global struct {
	repoDir   string
	verifDir  string
	prog      *ssa.Program
	pkgs      []*packages.Package
	typesPkg  map[string]*types.Package
	pkgByName map[string]*types.Package
	fnByName  map[string]*ssa.Function
	contracts *ContractSet
	loadSecs  float64
	findings  map[string]*Finding // known findings of the property being checked, by obligation name

	constGlobals    map[*ssa.Global]*ssa.Const
	nonNilGlobals    map[*ssa.Global]bool
	nonNilGlobalUsed bool
	constGlobalUsed bool
}

func parseTypeExpr(s string) (ast.Expr, error) { return parser.ParseExpr(s) }

func (g *Global) lookupPred(pkg *types.Package, name string) *Pred {
	if pkg != nil {
		if p := g.contracts.Preds[pkg.Path()+"."+name]; p != nil {
			return p
		}
	}
	// unique bare name across packages
	var found *Pred
	for k, p := range g.contracts.Preds {
		if strings.HasSuffix(k, "."+name) {
			if found != nil {
				return nil
			}
			found = p
		}
	}
	return found
}

func (g *Global) lookupUFunc(pkg *types.Package, name string) *UFunc {
	if pkg != nil {
		if u := g.contracts.UFuncs[pkg.Path()+"."+name]; u != nil {
			return u
		}
	}
	var found *UFunc
	for k, u := range g.contracts.UFuncs {
		if strings.HasSuffix(k, "."+name) {
			if found != nil {
				return nil
			}
			found = u
		}
	}
	return found
}

func envOr(k, d string) string {
	if v := os.Getenv(k); v != "" {
		return v
	}
	return d
}

func load(patterns []string) (*Global, error) {
	g := &Global{repoDir: envOr("VERIF_REPO", "/repo"), verifDir: envOr("VERIF_DIR", "/verif"),
		typesPkg: map[string]*types.Package{}, pkgByName: map[string]*types.Package{}, fnByName: map[string]*ssa.Function{}}
	cfg := &packages.Config{Mode: packages.LoadAllSyntax, Dir: g.repoDir, BuildFlags: []string{"-tags", "verif"},
		Env: append(os.Environ(), "GOFLAGS=-mod=mod", "GOPROXY=off", "GOSUMDB=off", "GOTOOLCHAIN=local")}
	pkgs, err := packages.Load(cfg, patterns...)
	if err != nil {
		return nil, err
	}
	nerr := 0
	packages.Visit(pkgs, nil, func(p *packages.Package) {
		for _, e := range p.Errors {
			if strings.HasPrefix(p.PkgPath, modulePath) {
				fmt.Fprintf(os.Stderr, "load error: %v\n", e)
				nerr++
			}
		}
		g.typesPkg[p.PkgPath] = p.Types
		if p.Types != nil {
			if _, dup := g.pkgByName[p.Types.Name()]; !dup || strings.HasPrefix(p.PkgPath, modulePath) {
				g.pkgByName[p.Types.Name()] = p.Types
			}
		}
	})
	if nerr > 0 {
		return nil, fmt.Errorf("%d load errors in the module (does /repo compile with -tags verif?)", nerr)
	}
	g.pkgs = pkgs
	prog, _ := ssautil.AllPackages(pkgs, ssa.GlobalDebug|ssa.InstantiateGenerics)
	prog.Build()
	g.prog = prog
	for fn := range ssautil.AllFunctions(prog) {
		g.fnByName[fn.String()] = fn
	}
	// contracts: verif_contracts*.go in module packages + /verif/contracts/*.contracts
	g.contracts = newContractSet()
	var files []string
	packages.Visit(pkgs, nil, func(p *packages.Package) {
		if !strings.HasPrefix(p.PkgPath, modulePath) {
			return
		}
		for _, f := range p.GoFiles {
			if strings.HasPrefix(filepath.Base(f), "verif_") {
				files = append(files, p.PkgPath+"\x00"+f)
			}
		}
	})
	sort.Strings(files)
	for _, pf := range files {
		i := strings.Index(pf, "\x00")
		if err := g.contracts.parseContractFile(pf[i+1:], pf[:i]); err != nil {
			return nil, err
		}
	}
	g.expandClosureTemplates()
	ext, _ := filepath.Glob(filepath.Join(g.verifDir, "contracts", "*.contracts"))
	sort.Strings(ext)
	for _, f := range ext {
		if err := g.contracts.parseContractFile(f, ""); err != nil {
			return nil, err
		}
	}
	return g, nil
}

// expandClosureTemplates: a contract written as `//@ func closures-of T` applies to every anonymous
// function of the package whose signature is that of the named function type T (enumerated from the
// SSA of the current source, so a closure added later is covered without a new annotation).
func (g *Global) expandClosureTemplates() {
	var order []*Contract
	for _, c := range g.contracts.Order {
		if !strings.HasPrefix(c.Key, "closures-of ") {
			order = append(order, c)
			continue
		}
		delete(g.contracts.Funcs, c.Full)
		tn := strings.TrimSpace(strings.TrimPrefix(c.Key, "closures-of "))
		pkg := g.typesPkg[c.PkgPath]
		if pkg == nil {
			continue
		}
		obj := pkg.Scope().Lookup(tn)
		if obj == nil {
			continue
		}
		sig, ok := obj.Type().Underlying().(*types.Signature)
		if !ok {
			continue
		}
		var names []string
		for n, fn := range g.fnByName {
			if fn.Parent() == nil || fn.Pkg == nil || fn.Pkg.Pkg.Path() != c.PkgPath || len(fn.Blocks) == 0 {
				continue
			}
			if types.Identical(fn.Signature, sig) {
				names = append(names, n)
			}
		}
		sort.Strings(names)
		for _, n := range names {
			if g.contracts.Funcs[n] != nil {
				continue // an explicit contract for this closure wins
			}
			cc := *c
			cc.Full = n
			cc.Key = strings.TrimPrefix(n, c.PkgPath+".")
			g.contracts.Funcs[n] = &cc
			order = append(order, &cc)
		}
	}
	g.contracts.Order = order
}

func (g *Global) findFuncs(sub string) []*ssa.Function {
	var out []*ssa.Function
	for n, f := range g.fnByName {
		if strings.Contains(n, sub) {
			out = append(out, f)
		}
	}
	sort.Slice(out, func(i, j int) bool { return out[i].String() < out[j].String() })
	return out
}

func main() {
	if len(os.Args) < 2 {
		fmt.Fprintln(os.Stderr, "usage: govc check <PROP> quick|thorough | vc <func> | ssa <func> | list")
		os.Exit(2)
	}
	switch os.Args[1] {
	case "ssa":
		g, err := load([]string{"./..."})
		if err != nil {
			fmt.Fprintln(os.Stderr, err)
			os.Exit(2)
		}
		for _, f := range g.findFuncs(os.Args[2]) {
			f.WriteTo(os.Stdout)
		}
	case "vc":
		g, err := load(loadPatterns())
		if err != nil {
			fmt.Fprintln(os.Stderr, err)
			os.Exit(2)
		}
		for _, c := range g.contracts.Order {
			if !strings.Contains(c.Full, os.Args[2]) || c.Assumed {
				continue
			}
			fn := g.fnByName[c.FnName()]
			if fn == nil {
				fmt.Printf("; no function %s\n", c.Full)
				continue
			}
			vc := g.genVC(fn, c)
			if vc.Err != nil {
				fmt.Printf("; ERROR %s: %v\n", c.Full, vc.Err)
				continue
			}
			if len(os.Args) > 3 {
				for _, ob := range vc.Obs {
					if strings.Contains(ob.Name, os.Args[3]) {
						fmt.Println(vc.script(ob, -1, "", nil))
						return
					}
				}
				continue
			}
			if len(vc.Unknown) > 0 || len(vc.Abstract) > 0 {
				fmt.Printf("; %s: unknown callees %v; abstractions %v\n", shortFuncName(fn), vc.Unknown, vc.Abstract)
			}
			rs := g.solveAll([]*FnVC{vc}, 10, false)
			for _, r := range rs {
				fmt.Printf("%-8s %-7s %6dms %s   [%s]\n", r.Status, r.Solver, r.Ms, r.Ob.Name, r.Ob.Pos)
			}
		}
	case "list":
		g, err := load(loadPatterns())
		if err != nil {
			fmt.Fprintln(os.Stderr, err)
			os.Exit(2)
		}
		for _, c := range g.contracts.Order {
			st := "verified"
			if c.Assumed {
				st = "assumed"
			}
			if g.fnByName[c.FnName()] == nil && !strings.Contains(c.Key, "iface ") {
				st += " (NO SUCH FUNCTION)"
			}
			fmt.Printf("%-70s %-10s %v\n", c.Full, st, c.Props)
		}
	case "check":
		if len(os.Args) < 4 {
			fmt.Fprintln(os.Stderr, "usage: govc check <PROP> quick|thorough")
			os.Exit(2)
		}
		os.Exit(runCheck(os.Args[2], os.Args[3]))
	default:
		fmt.Fprintln(os.Stderr, "unknown command")
		os.Exit(2)
	}
}

func loadPatterns() []string {
	return []string{".", "./ua", "./uacp", "./uasc", "./uapolicy", "./server", "./monitor"}
}
