package main

// Contract files: structured //@ comments in verif-tagged files of /repo
// (and /verif/contracts/*.contracts for assumed contracts on dependencies).

import (
	"bufio"
	"fmt"
	"go/ast"
	"go/parser"
	"os"
	"regexp"
	"strconv"
	"strings"
)

type Spec interface{}

type SImplies struct{ A, B Spec }
type SQuant struct {
	Forall bool
	Vars   []QVar
	Body   Spec
	Trig   []Spec
}
type QVar struct{ Name, Type string }
type SGo struct {
	E    ast.Expr
	Subs map[string]Spec
	Src  string
}

type Clause struct {
	Label  string
	Prop   string
	Text   string
	S      Spec
	Canary bool
	Witness bool
	Line   int
}

type LoopSpec struct {
	Inv       []Clause
	Decreases *Clause
}

type CallArg struct {
	H  string
	K  int
	Cl Clause
}

type LetDef struct {
	Name string
	S    Spec
	Text string
}

type Contract struct {
	Key        string // function name as written
	Full       string // resolved full ssa name
	PkgPath    string
	Props      []string
	Requires   []Clause
	Ensures    []Clause
	Lets       []LetDef
	Assigns    []string
	HasAssigns bool
	Loops      map[int]*LoopSpec
	NoOverflow bool
	Assumed    bool
	Inline     bool
	Decreases  *Clause
	MaxAlloc   *Clause
	Allocates  *Clause
	PanicsOK   bool
	Variant    string            // alternative contract of the same function: key written as `name@variant`
	Use        map[string]string // callee full name -> variant this function's proof relies on
	NonBlocking bool // a plain channel send in the function is an obligation (the function must not wait on other goroutines)
	FrameOnly  bool // only frame (assigns) and contract obligations: a panicking operation ends the execution, its no-panic condition is assumed afterwards
	Params     []string // optional explicit parameter names for assumed contracts on functions without source names
	File       string
	Line       int
	Ghost      []string
	Terminates bool
	Bytes      bool // model bulk copies (append/copy of slices) with quantified content axioms
	Only       []string // if set: the check owns only the obligations whose clause label is listed (the rest of the function is translated but not claimed)
	StrBytes   bool // give string(b) and []byte(s) their content (quantified axioms linking characters and bytes)
	After      []*AfterSpec
	Calls      []string // function-typed parameters the callee may invoke (at most once)
	Generics   [][2]string // type variable, parameter it is taken from
	CallArgs   []CallArg
	CallsNonNil []string // ... with non-nil arguments
	CallFrame  map[string]string // function parameter -> assumed frame of a call of it at the definition side
	Uses       []string // axioms assumed at entry
	Splits     []Clause // case split: every obligation is discharged once per case; the cases must cover the precondition
}

// AfterSpec: an assumed contract for one call site (trusted; reported in the evidence).
type AfterSpec struct {
	Pattern    string // call expression text with all white space removed
	Text       string
	Assigns    []string
	HasAssigns bool
	Ensures    []Clause
	Used       bool
}

type Pred struct {
	Name    string
	Params  []QVar
	Body    Spec
	Text    string
	PkgPath string
	File    string
}

// UFunc: uninterpreted spec function  //@ ufunc name(T1, T2) R
type UFunc struct {
	Name    string
	Args    []string
	Ret     string
	PkgPath string
}

type GuardedBy struct {
	PkgPath string
	Struct  string
	Mutex   string
	Field   string
	Props   []string
}

type GhostMap struct {
	Name    string
	Type    string
	PkgPath string
}

type ContractSet struct {
	Ghosts  map[string]*GhostMap
	Funcs   map[string]*Contract // by Full name
	Preds   map[string]*Pred     // by pkgpath + "." + name, and by bare name fallback
	UFuncs  map[string]*UFunc
	Guarded []GuardedBy
	Order   []*Contract
	Scan    []string // lines containing `assume` (assumption scan)
}

func newContractSet() *ContractSet {
	return &ContractSet{Ghosts: map[string]*GhostMap{}, Funcs: map[string]*Contract{}, Preds: map[string]*Pred{}, UFuncs: map[string]*UFunc{}}
}

var labelRe = regexp.MustCompile(`^\[([A-Za-z0-9_.:,\-]+)\]\s*`)

var clauseKW = map[string]bool{"props": true, "requires": true, "ensures": true, "assigns": true, "canary": true,
	"loop": true, "decreases": true, "nooverflow": true, "assumed": true, "inline": true, "let": true, "panics_ok": true,
	"params": true, "frame_only": true, "nonblocking": true, "use": true, "ghost": true, "terminates": true, "bytes": true, "strbytes": true, "only": true, "split": true, "uses": true, "after": true, "calls": true,
	"maxalloc": true, "allocates": true, "generic": true, "callarg": true, "witness": true}

// FnName: the SSA name of the function the contract is about (the variant suffix removed).
func (c *Contract) FnName() string {
	if c.Variant != "" {
		return strings.TrimSuffix(c.Full, "@"+c.Variant)
	}
	return c.Full
}

func fullName(pkgPath, key string) string {
	if strings.Contains(key, "/") || pkgPath == "" {
		return key
	}
	if strings.HasPrefix(key, "(*") {
		return "(*" + pkgPath + "." + key[2:]
	}
	if strings.HasPrefix(key, "(") {
		return "(" + pkgPath + "." + key[1:]
	}
	return pkgPath + "." + key
}

// parseContractFile reads //@ lines. pkgPath is the import path the file belongs to
// ("" for files with explicit `//@ package <path>` directives).
func (cs *ContractSet) parseContractFile(path, pkgPath string) error {
	f, err := os.Open(path)
	if err != nil {
		return err
	}
	defer f.Close()
	sc := bufio.NewScanner(f)
	sc.Buffer(make([]byte, 1<<20), 1<<20)
	type rawClause struct {
		kw   string
		text string
		line int
	}
	var cur *Contract
	var curPred *Pred
	var raws []rawClause
	flush := func() error {
		if curPred != nil {
			s, err := parseSpec(curPred.Text)
			if err != nil {
				return fmt.Errorf("%s: pred %s: %v", path, curPred.Name, err)
			}
			curPred.Body = s
			cs.Preds[curPred.PkgPath+"."+curPred.Name] = curPred
			curPred = nil
		}
		if cur == nil {
			return nil
		}
		for _, r := range raws {
			if err := cur.addClause(r.kw, strings.TrimSpace(r.text), r.line); err != nil {
				return fmt.Errorf("%s:%d: %v", path, r.line, err)
			}
		}
		cs.Funcs[cur.Full] = cur
		cs.Order = append(cs.Order, cur)
		cur, raws = nil, nil
		return nil
	}
	ln := 0
	for sc.Scan() {
		ln++
		line := strings.TrimSpace(sc.Text())
		if !strings.HasPrefix(line, "//@") {
			if err := flush(); err != nil {
				return err
			}
			continue
		}
		body := strings.TrimSpace(line[3:])
		if body == "" {
			continue
		}
		if i := strings.Index(body, " //"); i >= 0 { // trailing comment
			body = strings.TrimSpace(body[:i])
		}
		if strings.Contains(body, "assume") && !strings.HasPrefix(body, "assumed") {
			cs.Scan = append(cs.Scan, fmt.Sprintf("%s:%d: %s", path, ln, body))
		}
		fields := strings.Fields(body)
		kw := fields[0]
		rest := strings.TrimSpace(body[len(kw):])
		switch kw {
		case "package":
			if err := flush(); err != nil {
				return err
			}
			pkgPath = rest
			continue
		case "func":
			if err := flush(); err != nil {
				return err
			}
			cur = &Contract{Key: rest, PkgPath: pkgPath, Full: fullName(pkgPath, rest), File: path, Line: ln, Loops: map[int]*LoopSpec{}}
			if i := strings.LastIndex(rest, "@"); i > 0 && !strings.Contains(rest[i:], " ") {
				cur.Variant = rest[i+1:]
			}
			continue
		case "pred":
			if err := flush(); err != nil {
				return err
			}
			// pred name(a T, b U) := body
			i := strings.Index(rest, ":=")
			if i < 0 {
				return fmt.Errorf("%s:%d: pred without :=", path, ln)
			}
			head := strings.TrimSpace(rest[:i])
			p := &Pred{PkgPath: pkgPath, File: path, Text: strings.TrimSpace(rest[i+2:])}
			lp := strings.Index(head, "(")
			p.Name = strings.TrimSpace(head[:lp])
			ps := strings.TrimSuffix(strings.TrimSpace(head[lp+1:]), ")")
			for _, a := range splitTop(ps, ',') {
				a = strings.TrimSpace(a)
				if a == "" {
					continue
				}
				sp := strings.IndexAny(a, " \t")
				if sp < 0 {
					return fmt.Errorf("%s:%d: pred param needs a type: %q", path, ln, a)
				}
				p.Params = append(p.Params, QVar{Name: a[:sp], Type: strings.TrimSpace(a[sp:])})
			}
			curPred = p
			continue
		case "axiom":
			// axiom name: body   (a definitional axiom about ufuncs; assumed where a contract says `uses name`)
			if err := flush(); err != nil {
				return err
			}
			i := strings.Index(rest, ":")
			if i < 0 {
				return fmt.Errorf("%s:%d: axiom without name", path, ln)
			}
			curPred = &Pred{Name: "axiom " + strings.TrimSpace(rest[:i]), PkgPath: pkgPath, File: path, Text: strings.TrimSpace(rest[i+1:])}
			continue
		case "ufunc":
			if err := flush(); err != nil {
				return err
			}
			lp := strings.Index(rest, "(")
			rp := strings.LastIndex(rest, ")")
			u := &UFunc{Name: strings.TrimSpace(rest[:lp]), Ret: strings.TrimSpace(rest[rp+1:]), PkgPath: pkgPath}
			for _, a := range splitTop(rest[lp+1:rp], ',') {
				if a = strings.TrimSpace(a); a != "" {
					u.Args = append(u.Args, a)
				}
			}
			cs.UFuncs[pkgPath+"."+u.Name] = u
			continue
		case "ghostmap":
			// ghostmap name ValueType : ghost state, a map from references to values (name(x) in specs,
			// `assigns name(x)` in frames); it exists only in specifications
			if err := flush(); err != nil {
				return err
			}
			fs := strings.Fields(rest)
			if len(fs) < 2 {
				return fmt.Errorf("%s:%d: ghostmap needs a name and a value type", path, ln)
			}
			cs.Ghosts[fs[0]] = &GhostMap{Name: fs[0], Type: strings.Join(fs[1:], " "), PkgPath: pkgPath}
			continue
		case "guarded_by":
			// guarded_by Struct.Mutex: field [props C11]
			if err := flush(); err != nil {
				return err
			}
			i := strings.Index(rest, ":")
			lhs, rhs := strings.TrimSpace(rest[:i]), strings.Fields(rest[i+1:])
			d := strings.LastIndex(lhs, ".")
			g := GuardedBy{PkgPath: pkgPath, Struct: lhs[:d], Mutex: lhs[d+1:], Field: rhs[0]}
			if len(rhs) > 2 && rhs[1] == "props" {
				g.Props = strings.Split(rhs[2], ",")
			}
			cs.Guarded = append(cs.Guarded, g)
			continue
		}
		if curPred != nil {
			curPred.Text += " " + body
			continue
		}
		if cur == nil {
			if clauseKW[kw] && kw != "props" {
				// a clause outside any contract block (e.g. separated from its function by an ordinary
				// comment line) would be silently ignored: refuse it
				return fmt.Errorf("%s:%d: clause %q does not belong to a contract block (a non-//@ line ends the block)", path, ln, kw)
			}
			continue // free-standing comment line
		}
		if clauseKW[kw] {
			raws = append(raws, rawClause{kw, rest, ln})
		} else if len(raws) > 0 {
			raws[len(raws)-1].text += " " + body
		} else {
			return fmt.Errorf("%s:%d: unknown clause %q", path, ln, kw)
		}
	}
	return flush()
}

func (c *Contract) mkClause(text string, line int) (Clause, error) {
	cl := Clause{Text: text, Line: line}
	if m := labelRe.FindStringSubmatch(text); m != nil {
		lab := m[1]
		text = text[len(m[0]):]
		if i := strings.Index(lab, ":"); i >= 0 {
			cl.Prop, cl.Label = lab[:i], lab[i+1:]
		} else {
			cl.Label = lab
		}
		cl.Text = text
	}
	s, err := parseSpec(text)
	if err != nil {
		return cl, fmt.Errorf("clause %q: %v", text, err)
	}
	cl.S = s
	return cl, nil
}

func (c *Contract) addClause(kw, text string, line int) error {
	switch kw {
	case "props":
		for _, p := range strings.FieldsFunc(text, func(r rune) bool { return r == ',' || r == ' ' }) {
			c.Props = append(c.Props, p)
		}
	case "nooverflow":
		c.NoOverflow = true
	case "assumed":
		c.Assumed = true
	case "inline":
		c.Inline = true
	case "panics_ok":
		c.PanicsOK = true
	case "nonblocking":
		c.NonBlocking = true
	case "frame_only":
		c.FrameOnly = true
		c.PanicsOK = true
	case "use":
		// use <callee>@<variant> : calls of <callee> are checked against that alternative contract
		for _, f := range strings.Fields(text) {
			i := strings.LastIndex(f, "@")
			if i < 0 {
				return fmt.Errorf("use: want <function>@<variant>")
			}
			if c.Use == nil {
				c.Use = map[string]string{}
			}
			c.Use[fullName(c.PkgPath, f[:i])] = f[i+1:]
		}
	case "terminates":
		c.Terminates = true
	case "bytes":
		c.Bytes = true
	case "strbytes":
		c.StrBytes = true
	case "only":
		c.Only = append(c.Only, strings.Fields(strings.ReplaceAll(text, ",", " "))...)
	case "params":
		c.Params = strings.Fields(strings.ReplaceAll(text, ",", " "))
	case "ghost":
		c.Ghost = append(c.Ghost, text)
	case "after":
		// after "<call expression text>" assigns a, b | after "<call text>" ensures <spec>
		// An assumed fact about one call site, keyed by the exact source text of the call.
		if !strings.HasPrefix(text, "\"") {
			return fmt.Errorf("after needs a quoted call expression")
		}
		j := strings.Index(text[1:], "\"")
		if j < 0 {
			return fmt.Errorf("unterminated call pattern")
		}
		pat := strings.Join(strings.Fields(text[1:j+1]), "")
		rest := strings.TrimSpace(text[j+2:])
		var as *AfterSpec
		for _, a := range c.After {
			if a.Pattern == pat {
				as = a
			}
		}
		if as == nil {
			as = &AfterSpec{Pattern: pat, Text: text[1 : j+1]}
			c.After = append(c.After, as)
		}
		switch {
		case strings.HasPrefix(rest, "assigns"):
			as.HasAssigns = true
			for _, a := range splitTop(strings.TrimSpace(rest[7:]), ',') {
				if a = strings.TrimSpace(a); a != "" && a != "nothing" {
					as.Assigns = append(as.Assigns, a)
				}
			}
		case strings.HasPrefix(rest, "ensures"):
			cl, err := c.mkClause(strings.TrimSpace(rest[7:]), line)
			if err != nil {
				return err
			}
			as.Ensures = append(as.Ensures, cl)
		default:
			return fmt.Errorf("after: want assigns or ensures")
		}
	case "callarg":
		// callarg h k <spec over cbarg>
		fs := strings.SplitN(strings.TrimSpace(text), " ", 3)
		if len(fs) != 3 {
			return fmt.Errorf("callarg: want `callarg <param> <index> <spec>`")
		}
		k, err := strconv.Atoi(fs[1])
		if err != nil {
			return fmt.Errorf("callarg: bad index %q", fs[1])
		}
		cl, err := c.mkClause(fs[2], line)
		if err != nil {
			return err
		}
		c.CallArgs = append(c.CallArgs, CallArg{H: fs[0], K: k, Cl: cl})
	case "generic":
		// generic T elem p: at each call site T is the element type of the pointer boxed in the interface
		// argument p (its static type before the conversion to the interface)
		fs := strings.Fields(text)
		if len(fs) != 3 || fs[1] != "elem" {
			return fmt.Errorf("generic: want `generic T elem <param>`")
		}
		c.Generics = append(c.Generics, [2]string{fs[0], fs[2]})
	case "calls":
		fs := strings.Fields(text)
		if len(fs) == 0 {
			return fmt.Errorf("calls needs a parameter name")
		}
		c.Calls = append(c.Calls, fs[0])
		if len(fs) > 1 && fs[1] == "nonnil" {
			c.CallsNonNil = append(c.CallsNonNil, fs[0])
		}
		// calls h [nonnil] frame <assigns targets>: what the (arbitrary) function value is ASSUMED not to
		// exceed when the function under verification calls it (definition side); default: everything
		for i, f := range fs {
			if f == "frame" && i+1 < len(fs) {
				if c.CallFrame == nil {
					c.CallFrame = map[string]string{}
				}
				c.CallFrame[fs[0]] = strings.Join(fs[i+1:], " ")
			}
		}
	case "uses":
		c.Uses = append(c.Uses, strings.Fields(strings.ReplaceAll(text, ",", " "))...)
	case "split":
		cl, err := c.mkClause(text, line)
		if err != nil {
			return err
		}
		c.Splits = append(c.Splits, cl)
	case "requires", "ensures", "canary", "witness":
		canary := false
		witness := false
		if kw == "canary" {
			canary = true
			text = strings.TrimSpace(strings.TrimPrefix(text, "ensures"))
		}
		if kw == "witness" {
			// witness ensures [label] E: some execution of the function must end in a state satisfying E.
			// Checked like a canary for `not E` (which must be refuted at one return point), but a witness
			// that cannot be found is a VIOLATION: the behaviour the property promises no longer exists.
			canary, witness = true, true
			text = strings.TrimSpace(strings.TrimPrefix(text, "ensures"))
			if m := labelRe.FindString(text); m != "" {
				text = m + "!(" + text[len(m):] + ")"
			} else {
				text = "!(" + text + ")"
			}
		}
		cl, err := c.mkClause(text, line)
		if err != nil {
			return err
		}
		cl.Canary = canary
		cl.Witness = witness
		if kw == "requires" {
			c.Requires = append(c.Requires, cl)
		} else {
			c.Ensures = append(c.Ensures, cl)
		}
	case "let":
		i := strings.Index(text, "=")
		if i < 0 {
			return fmt.Errorf("let without =")
		}
		s, err := parseSpec(strings.TrimSpace(text[i+1:]))
		if err != nil {
			return err
		}
		c.Lets = append(c.Lets, LetDef{Name: strings.TrimSpace(text[:i]), S: s, Text: text})
	case "assigns":
		c.HasAssigns = true
		for _, a := range splitTop(text, ',') {
			a = strings.TrimSpace(a)
			if a != "" && a != "nothing" {
				c.Assigns = append(c.Assigns, a)
			}
		}
	case "decreases":
		cl, err := c.mkClause(text, line)
		if err != nil {
			return err
		}
		c.Decreases = &cl
	case "maxalloc":
		// maxalloc [label] <e>: no single allocation request made by this function (make, or a callee
		// that `allocates`) asks for more than e elements; e is evaluated in the entry state
		cl, err := c.mkClause(text, line)
		if err != nil {
			return err
		}
		c.MaxAlloc = &cl
	case "allocates":
		// allocates <e>: (assumed contracts) the call requests e elements of memory
		cl, err := c.mkClause(text, line)
		if err != nil {
			return err
		}
		c.Allocates = &cl
	case "loop":
		// loop <n> invariant <e> | loop <n> decreases <e>
		fs := strings.Fields(text)
		if len(fs) < 3 {
			return fmt.Errorf("bad loop clause %q", text)
		}
		n, err := strconv.Atoi(fs[0])
		if err != nil {
			return fmt.Errorf("bad loop ordinal %q", fs[0])
		}
		rest := strings.TrimSpace(text[strings.Index(text, fs[1])+len(fs[1]):])
		ls := c.Loops[n]
		if ls == nil {
			ls = &LoopSpec{}
			c.Loops[n] = ls
		}
		cl, err := c.mkClause(rest, line)
		if err != nil {
			return err
		}
		switch fs[1] {
		case "invariant":
			ls.Inv = append(ls.Inv, cl)
		case "decreases":
			ls.Decreases = &cl
		default:
			return fmt.Errorf("bad loop clause kind %q", fs[1])
		}
	}
	return nil
}

// splitTop splits s at sep occurrences outside brackets and string literals.
func splitTop(s string, sep byte) []string {
	var out []string
	depth, start := 0, 0
	inStr := false
	for i := 0; i < len(s); i++ {
		ch := s[i]
		if inStr {
			if ch == '\\' {
				i++
			} else if ch == '"' {
				inStr = false
			}
			continue
		}
		switch ch {
		case '"':
			inStr = true
		case '(', '[', '{':
			depth++
		case ')', ']', '}':
			depth--
		default:
			if ch == sep && depth == 0 {
				out = append(out, s[start:i])
				start = i + 1
			}
		}
	}
	return append(out, s[start:])
}

func findTop(s, pat string) int {
	depth := 0
	inStr := false
	for i := 0; i < len(s); i++ {
		ch := s[i]
		if inStr {
			if ch == '\\' {
				i++
			} else if ch == '"' {
				inStr = false
			}
			continue
		}
		switch ch {
		case '"':
			inStr = true
		case '(', '[', '{':
			depth++
		case ')', ']', '}':
			depth--
		}
		if depth == 0 && strings.HasPrefix(s[i:], pat) {
			return i
		}
	}
	return -1
}

func matchParen(s string, i int) int {
	depth := 0
	inStr := false
	for j := i; j < len(s); j++ {
		ch := s[j]
		if inStr {
			if ch == '\\' {
				j++
			} else if ch == '"' {
				inStr = false
			}
			continue
		}
		switch ch {
		case '"':
			inStr = true
		case '(':
			depth++
		case ')':
			depth--
			if depth == 0 {
				return j
			}
		}
	}
	return -1
}

var subCtr int

func parseSpec(s string) (Spec, error) {
	s = strings.TrimSpace(s)
	if s == "" {
		return nil, fmt.Errorf("empty expression")
	}
	for _, q := range []string{"forall", "exists"} {
		if strings.HasPrefix(s, q+" ") {
			i := findTop(s, "::")
			if i < 0 {
				return nil, fmt.Errorf("quantifier without ::")
			}
			var vars []QVar
			for _, v := range splitTop(s[len(q):i], ',') {
				fs := strings.Fields(v)
				if len(fs) < 2 {
					return nil, fmt.Errorf("quantified variable needs a type: %q", v)
				}
				vars = append(vars, QVar{Name: fs[0], Type: strings.Join(fs[1:], " ")})
			}
			rest := strings.TrimSpace(s[i+2:])
			var trig []Spec
			if strings.HasPrefix(rest, "{") {
				// optional trigger: forall x T :: { f(x), g(x) } body
				j := strings.Index(rest, "}")
				if j < 0 {
					return nil, fmt.Errorf("unterminated trigger")
				}
				for _, t := range splitTop(rest[1:j], ',') {
					ts, err := parseSpec(t)
					if err != nil {
						return nil, err
					}
					trig = append(trig, ts)
				}
				rest = rest[j+1:]
			}
			body, err := parseSpec(rest)
			if err != nil {
				return nil, err
			}
			return &SQuant{Forall: q == "forall", Vars: vars, Body: body, Trig: trig}, nil
		}
	}
	if i := findTop(s, "==>"); i >= 0 {
		a, err := parseSpec(s[:i])
		if err != nil {
			return nil, err
		}
		b, err := parseSpec(s[i+3:])
		if err != nil {
			return nil, err
		}
		return &SImplies{a, b}, nil
	}
	subs := map[string]Spec{}
	rew, err := rewriteSubs(s, subs)
	if err != nil {
		return nil, err
	}
	e, err := parser.ParseExpr(rew)
	if err != nil {
		return nil, fmt.Errorf("%v in %q", err, rew)
	}
	return &SGo{E: e, Subs: subs, Src: s}, nil
}

// rewriteSubs replaces parenthesised groups that contain ==> or a quantifier by placeholder identifiers.
func rewriteSubs(s string, subs map[string]Spec) (string, error) {
	var b strings.Builder
	for i := 0; i < len(s); i++ {
		if s[i] == '"' {
			j := i + 1
			for j < len(s) && s[j] != '"' {
				if s[j] == '\\' {
					j++
				}
				j++
			}
			b.WriteString(s[i:min(j+1, len(s))])
			i = j
			continue
		}
		if s[i] != '(' {
			b.WriteByte(s[i])
			continue
		}
		j := matchParen(s, i)
		if j < 0 {
			return "", fmt.Errorf("unbalanced parenthesis in %q", s)
		}
		inner := strings.TrimSpace(s[i+1 : j])
		if strings.HasPrefix(inner, "forall ") || strings.HasPrefix(inner, "exists ") || findTop(inner, "==>") >= 0 {
			sub, err := parseSpec(inner)
			if err != nil {
				return "", err
			}
			subCtr++
			name := fmt.Sprintf("__sub%d", subCtr)
			subs[name] = sub
			b.WriteString(name)
		} else {
			r, err := rewriteSubs(s[i+1:j], subs)
			if err != nil {
				return "", err
			}
			b.WriteString("(" + r + ")")
		}
		i = j
	}
	return b.String(), nil
}
