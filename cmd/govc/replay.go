package main

// Replay of solver counterexamples on the real code: the model of a failed obligation is turned
// into an in-package Go test, injected with `go test -overlay` (nothing is written to /repo).

import (
	"bytes"
	"context"
	"encoding/json"
	"fmt"
	"go/types"
	"math/big"
	"os"
	"os/exec"
	"path/filepath"
	"strings"
	"time"
)

type replayOut struct {
	text      string
	confirmed bool
}

// ---- s-expression parsing of (get-value ...) output ----

type sx struct {
	atom string
	list []*sx
}

func parseSx(s string) (*sx, string) {
	s = strings.TrimLeft(s, " \t\r\n")
	if s == "" {
		return nil, ""
	}
	if s[0] == '(' {
		n := &sx{}
		s = s[1:]
		for {
			s = strings.TrimLeft(s, " \t\r\n")
			if s == "" {
				return n, ""
			}
			if s[0] == ')' {
				return n, s[1:]
			}
			var c *sx
			c, s = parseSx(s)
			if c == nil {
				return n, s
			}
			n.list = append(n.list, c)
		}
	}
	if s[0] == '|' {
		j := strings.IndexByte(s[1:], '|')
		return &sx{atom: s[:j+2]}, s[j+2:]
	}
	if s[0] == '"' {
		j := strings.IndexByte(s[1:], '"')
		return &sx{atom: s[:j+2]}, s[j+2:]
	}
	j := 0
	for j < len(s) && !strings.ContainsRune(" \t\r\n()", rune(s[j])) {
		j++
	}
	return &sx{atom: s[:j]}, s[j:]
}

func (n *sx) String() string {
	if n == nil {
		return "?"
	}
	if n.list == nil && n.atom != "" {
		return n.atom
	}
	var ps []string
	for _, c := range n.list {
		ps = append(ps, c.String())
	}
	return "(" + strings.Join(ps, " ") + ")"
}

// numeric value of a model value (bit-vector or Int), and whether it is one.
func sxInt(n *sx) (*big.Int, bool) {
	if n == nil {
		return nil, false
	}
	if n.list == nil {
		a := n.atom
		switch {
		case strings.HasPrefix(a, "#x"):
			v, ok := new(big.Int).SetString(a[2:], 16)
			return v, ok
		case strings.HasPrefix(a, "#b"):
			v, ok := new(big.Int).SetString(a[2:], 2)
			return v, ok
		case a == "true":
			return big.NewInt(1), true
		case a == "false":
			return big.NewInt(0), true
		}
		v, ok := new(big.Int).SetString(a, 10)
		return v, ok
	}
	if len(n.list) == 2 && n.list[0].atom == "-" {
		v, ok := sxInt(n.list[1])
		if ok {
			return new(big.Int).Neg(v), true
		}
	}
	if len(n.list) == 3 && n.list[0].atom == "_" && strings.HasPrefix(n.list[1].atom, "bv") {
		v, ok := new(big.Int).SetString(n.list[1].atom[2:], 10)
		return v, ok
	}
	return nil, false
}

// ---- query plan ----

type rplan struct {
	kind   string // int bool str slice ptr struct iface skip
	ty     types.Type
	idx    int      // query index of the main term (value, ref, len, typ)
	aux    []int    // extra query indices (string chars)
	elems  []*rplan // slice elements / struct fields
	names  []string // field names (struct)
	signed bool
	width  int
}

type replayer struct {
	g       *Global
	vc      *FnVC
	C       *Ctx
	queries []string
	vals    []*sx
	pkg     *types.Package
	imports map[string]string
	code    bytes.Buffer
	varCtr  int
	byRef   map[string]string
	partial []string
	huge    bool
}

func (rp *replayer) q(term string) int {
	rp.queries = append(rp.queries, term)
	return len(rp.queries) - 1
}

func (rp *replayer) entry(key string) string { return rp.C.hget(rp.vc.EntryHeap, key) }

func (rp *replayer) plan(term string, t types.Type, depth int) *rplan {
	C := rp.C
	switch u := t.Underlying().(type) {
	case *types.Basic:
		switch {
		case u.Info()&types.IsBoolean != 0:
			return &rplan{kind: "bool", ty: t, idx: rp.q(term)}
		case u.Info()&types.IsInteger != 0:
			return &rplan{kind: "int", ty: t, idx: rp.q(term), signed: !isUnsigned(t), width: intWidth(t)}
		case u.Info()&types.IsString != 0:
			p := &rplan{kind: "str", ty: t, idx: rp.q(app("slen", term))}
			for i := 0; i < 48; i++ {
				p.aux = append(p.aux, rp.q(app("sat", term, bvI(int64(i), 64))))
			}
			return p
		}
		return &rplan{kind: "skip", ty: t}
	case *types.Slice:
		p := &rplan{kind: "slice", ty: t, idx: rp.q(app("s.len", term))}
		p.aux = append(p.aux, rp.q(app("s.arr", term)))
		if depth > 4 {
			return p
		}
		et := u.Elem()
		n := 0
		switch {
		case isInt(et) && intWidth(et) == 8 && depth <= 2:
			n = 2048 // byte buffers: everything a "small" model can contain
		case isInt(et) || isBool(et):
			n = 96
		case isAggregate(et):
			n = 0
		default:
			n = 4
		}
		es := C.sortOf(et)
		for i := 0; i < n; i++ {
			e := sel(sel(rp.entry(C.elemKey(es)), app("s.arr", term)), app("bvadd", app("s.off", term), bvI(int64(i), 64)))
			p.elems = append(p.elems, rp.plan(e, et, depth+1))
		}
		return p
	case *types.Pointer:
		p := &rplan{kind: "ptr", ty: t, idx: rp.q(term)}
		if depth > 4 {
			return p
		}
		if st, ok := u.Elem().Underlying().(*types.Struct); ok {
			p.elems = []*rplan{rp.planStruct(term, u.Elem(), st, depth+1)}
		} else if !isAggregate(u.Elem()) {
			pl := &Place{kind: plCell, key: C.cellKey(C.sortOf(u.Elem())), ref: term, ty: u.Elem()}
			p.elems = []*rplan{rp.plan(sel(rp.entry(pl.key), term), u.Elem(), depth+1)}
		}
		return p
	case *types.Interface:
		return &rplan{kind: "iface", ty: t, idx: rp.q(app("i.typ", term)), aux: []int{rp.q(app("i.val", term))}}
	case *types.Struct:
		// struct value (datatype term)
		p := &rplan{kind: "struct", ty: t}
		srt := C.structSort(t, u)
		for i := 0; i < u.NumFields(); i++ {
			p.names = append(p.names, u.Field(i).Name())
			p.elems = append(p.elems, rp.plan(app(srt+"."+fieldName(u, i), term), u.Field(i).Type(), depth+1))
		}
		return p
	}
	return &rplan{kind: "skip", ty: t}
}

func (rp *replayer) planStruct(ref string, T types.Type, st *types.Struct, depth int) *rplan {
	C := rp.C
	p := &rplan{kind: "struct", ty: T}
	for i := 0; i < st.NumFields(); i++ {
		f := st.Field(i)
		p.names = append(p.names, f.Name())
		ft := f.Type()
		switch fu := ft.Underlying().(type) {
		case *types.Struct:
			if depth > 4 || (f.Pkg() != nil && strings.HasPrefix(f.Pkg().Path(), "sync")) || strings.HasPrefix(shortTypeName(ft), "sync.") || strings.HasPrefix(shortTypeName(ft), "time.") {
				p.elems = append(p.elems, &rplan{kind: "skip", ty: ft})
				continue
			}
			p.elems = append(p.elems, rp.planStruct(app(C.addrFn(structKey(T, st), fieldName(st, i)), ref), ft, fu, depth+1))
		case *types.Array:
			p.elems = append(p.elems, &rplan{kind: "skip", ty: ft})
		default:
			p.elems = append(p.elems, rp.plan(sel(rp.entry(C.fieldKey(T, st, i)), ref), ft, depth+1))
		}
	}
	return p
}

// ---- code emission ----

func (rp *replayer) newVar() string { rp.varCtr++; return fmt.Sprintf("v%d", rp.varCtr) }

func (rp *replayer) typeName(t types.Type) (string, bool) {
	ok := true
	s := types.TypeString(t, func(p *types.Package) string {
		if p == rp.pkg {
			return ""
		}
		rp.imports[p.Path()] = p.Name()
		return p.Name()
	})
	// unexported foreign names cannot be written
	var check func(t types.Type)
	seen := map[types.Type]bool{}
	check = func(t types.Type) {
		if seen[t] {
			return
		}
		seen[t] = true
		switch u := t.(type) {
		case *types.Named:
			if u.Obj().Pkg() != nil && u.Obj().Pkg() != rp.pkg && !u.Obj().Exported() {
				ok = false
			}
		case *types.Pointer:
			check(u.Elem())
		case *types.Slice:
			check(u.Elem())
		}
	}
	check(t)
	return s, ok
}

func (rp *replayer) intVal(p *rplan) *big.Int {
	v, ok := sxInt(rp.vals[p.idx])
	if !ok {
		return big.NewInt(0)
	}
	if p.signed && p.width > 0 && v.Bit(p.width-1) == 1 && v.Sign() >= 0 {
		v = new(big.Int).Sub(v, new(big.Int).Lsh(big.NewInt(1), uint(p.width)))
	}
	return v
}

// expr returns a Go expression (as interface{}-compatible value) for the planned value, emitting
// statements for compound values.
func (rp *replayer) expr(p *rplan) string {
	switch p.kind {
	case "int":
		v := rp.intVal(p)
		if p.signed {
			return fmt.Sprintf("int64(%s)", v.String())
		}
		return fmt.Sprintf("uint64(%s)", v.String())
	case "bool":
		v, _ := sxInt(rp.vals[p.idx])
		if v != nil && v.Sign() != 0 {
			return "true"
		}
		return "false"
	case "str":
		n, _ := sxInt(rp.vals[p.idx])
		ln := int64(0)
		if n != nil {
			ln = signed64(n)
		}
		if ln < 0 || ln > 1<<20 {
			rp.partial = append(rp.partial, "string of length "+fmt.Sprint(ln)+" shortened")
			ln = 48
		}
		bs := make([]byte, ln)
		for i := range bs {
			bs[i] = 'a'
			if i < len(p.aux) {
				if c, ok := sxInt(rp.vals[p.aux[i]]); ok {
					bs[i] = byte(c.Uint64())
				}
			}
		}
		return fmt.Sprintf("%q", string(bs))
	case "slice":
		n, _ := sxInt(rp.vals[p.idx])
		arr, _ := sxInt(rp.vals[p.aux[0]])
		ln := int64(0)
		if n != nil {
			ln = signed64(n)
		}
		tn, ok := rp.typeName(p.ty)
		if !ok {
			rp.partial = append(rp.partial, "slice of unnameable type left nil")
			return "nil"
		}
		if arr != nil && arr.Sign() == 0 && ln == 0 {
			return "(" + tn + ")(nil)"
		}
		if ln < 0 {
			ln = 0
		}
		if ln > 1<<27 {
			rp.huge = true
			rp.partial = append(rp.partial, fmt.Sprintf("slice of length %d not materialised", ln))
			ln = 1 << 16
		}
		v := rp.newVar()
		fmt.Fprintf(&rp.code, "\t%s := make(%s, %d)\n", v, tn, ln)
		for i, e := range p.elems {
			if int64(i) >= ln {
				break
			}
			switch e.kind {
			case "int":
				if x := rp.intVal(e); x.Sign() != 0 {
					et, _ := rp.typeName(e.ty)
					fmt.Fprintf(&rp.code, "\t%s[%d] = %s(%s)\n", v, i, et, wrapLit(x, e))
				}
			case "ptr":
				ex := rp.expr(e)
				if ex != "nil" {
					fmt.Fprintf(&rp.code, "\t%s[%d] = %s\n", v, i, ex)
				}
			}
		}
		return v
	case "ptr":
		ref, _ := sxInt(rp.vals[p.idx])
		if ref == nil || ref.Sign() == 0 {
			return "nil"
		}
		key := ref.String() + "|" + p.ty.String()
		if v, ok := rp.byRef[key]; ok {
			return v
		}
		tn, ok := rp.typeName(p.ty.Underlying().(*types.Pointer).Elem())
		if !ok {
			rp.partial = append(rp.partial, "pointer to unnameable type "+p.ty.String()+" left nil")
			return "nil"
		}
		v := rp.newVar()
		rp.byRef[key] = v
		fmt.Fprintf(&rp.code, "\t%s := new(%s)\n", v, tn)
		if len(p.elems) == 1 {
			if p.elems[0].kind == "struct" {
				rp.fill(v, p.elems[0])
			} else if ex := rp.expr(p.elems[0]); ex != "nil" {
				fmt.Fprintf(&rp.code, "\tvpSetPtr(%s, %s)\n", v, ex)
			}
		}
		return v
	case "iface":
		typ, _ := sxInt(rp.vals[p.idx])
		if typ == nil || typ.Sign() == 0 {
			return "nil"
		}
		if t, ok := rp.C.typeByID[int(typ.Int64())]; ok {
			rp.partial = append(rp.partial, "interface value of dynamic type "+t.String()+" left nil")
		} else {
			rp.partial = append(rp.partial, "interface value of unknown dynamic type left nil")
		}
		return "nil"
	case "struct":
		tn, ok := rp.typeName(p.ty)
		if !ok {
			return "nil"
		}
		v := rp.newVar()
		fmt.Fprintf(&rp.code, "\t%s := new(%s)\n", v, tn)
		rp.fill(v, p)
		return "*" + v
	}
	return "nil"
}

func wrapLit(x *big.Int, e *rplan) string { return x.String() }

func signed64(v *big.Int) int64 {
	if v.BitLen() > 63 {
		return new(big.Int).Sub(v, new(big.Int).Lsh(big.NewInt(1), 64)).Int64()
	}
	return v.Int64()
}

// fill sets the fields of the struct pointed to by Go variable v (through reflection, so that
// unexported fields of other packages can be set as well).
func (rp *replayer) fill(v string, p *rplan) {
	for i, e := range p.elems {
		name := p.names[i]
		switch e.kind {
		case "skip":
			continue
		case "struct":
			// nested by-value struct
			sub := rp.newVar()
			fmt.Fprintf(&rp.code, "\t%s := vpFieldPtr(%s, %q)\n", sub, v, name)
			rp.fillIface(sub, e)
		case "ptr":
			ref, _ := sxInt(rp.vals[e.idx])
			if ref == nil || ref.Sign() == 0 {
				continue
			}
			key := ref.String() + "|" + e.ty.String()
			if ex, ok := rp.byRef[key]; ok {
				fmt.Fprintf(&rp.code, "\tvpSet(%s, %q, %s)\n", v, name, ex)
				continue
			}
			if _, ok := rp.typeName(e.ty); ok {
				ex := rp.expr(e)
				fmt.Fprintf(&rp.code, "\tvpSet(%s, %q, %s)\n", v, name, ex)
				continue
			}
			// unnameable pointee: allocate through reflection
			sub := rp.newVar()
			fmt.Fprintf(&rp.code, "\t%s := vpNewAt(%s, %q)\n", sub, v, name)
			rp.byRef[key] = sub
			if len(e.elems) == 1 && e.elems[0].kind == "struct" {
				rp.fillIface(sub, e.elems[0])
			}
		default:
			ex := rp.expr(e)
			if ex == "nil" || ex == "false" || ex == "int64(0)" || ex == "uint64(0)" || ex == `""` {
				continue
			}
			fmt.Fprintf(&rp.code, "\tvpSet(%s, %q, %s)\n", v, name, ex)
		}
	}
}

func (rp *replayer) fillIface(v string, p *rplan) { rp.fill(v, p) }

const replayRuntime = `
func vpField(p interface{}, name string) reflect.Value {
	v := reflect.ValueOf(p)
	for v.Kind() == reflect.Ptr || v.Kind() == reflect.Interface {
		v = v.Elem()
	}
	f := v.FieldByName(name)
	if !f.IsValid() {
		panic("vp: no field " + name)
	}
	return reflect.NewAt(f.Type(), unsafe.Pointer(f.UnsafeAddr())).Elem()
}

func vpFieldPtr(p interface{}, name string) interface{} { return vpField(p, name).Addr().Interface() }

func vpNewAt(p interface{}, name string) interface{} {
	f := vpField(p, name)
	n := reflect.New(f.Type().Elem())
	f.Set(n)
	return n.Interface()
}

func vpSetPtr(p interface{}, val interface{}) {
	e := reflect.ValueOf(p).Elem()
	vpAssign(e, val)
}

func vpAssign(f reflect.Value, val interface{}) {
	rv := reflect.ValueOf(val)
	switch f.Kind() {
	case reflect.Int, reflect.Int8, reflect.Int16, reflect.Int32, reflect.Int64:
		switch x := val.(type) {
		case int64:
			f.SetInt(x)
		case uint64:
			f.SetInt(int64(x))
		}
	case reflect.Uint, reflect.Uint8, reflect.Uint16, reflect.Uint32, reflect.Uint64, reflect.Uintptr:
		switch x := val.(type) {
		case int64:
			f.SetUint(uint64(x))
		case uint64:
			f.SetUint(x)
		}
	case reflect.Float32, reflect.Float64:
		switch x := val.(type) {
		case uint64:
			if f.Kind() == reflect.Float32 {
				f.SetFloat(float64(math.Float32frombits(uint32(x))))
			} else {
				f.SetFloat(math.Float64frombits(x))
			}
		}
	default:
		if rv.IsValid() && rv.Type().ConvertibleTo(f.Type()) {
			f.Set(rv.Convert(f.Type()))
		}
	}
}

func vpSet(p interface{}, name string, val interface{}) { vpAssign(vpField(p, name), val) }
`

func (g *Global) replay(r *Result, prop, dir string) replayOut {
	var out bytes.Buffer
	vc := r.VC
	fn := vc.Fn
	if fn.Pkg == nil {
		return replayOut{text: "replay: function has no package; not replayed\n"}
	}
	rp := &replayer{g: g, vc: vc, C: vc.Ctx, pkg: fn.Pkg.Pkg, imports: map[string]string{}, byRef: map[string]string{}}
	var plans []*rplan
	for _, p := range vc.Params {
		plans = append(plans, rp.plan(p.T, p.Ty, 0))
	}
	if len(rp.queries) == 0 {
		rp.q("true")
	}
	// ask the winning solver for the values
	// prefer a small counterexample: first ask for a model in which every slice and string reachable
	// from the parameters is short (replayable without huge allocations); fall back to any model
	var small []string
	for i, qt := range rp.queries {
		if strings.HasPrefix(qt, "(s.len ") || strings.HasPrefix(qt, "(slen ") {
			small = append(small, fmt.Sprintf("(assert (bvule %s %s))", rp.queries[i], bvI(2048, 64)))
		}
	}
	ctx, cancel := context.WithTimeout(context.Background(), 90*time.Second)
	defer cancel()
	var ans solverAnswer
	if len(small) > 0 && r.Ob.Witness != "" {
		w := append(append([]string{}, small...), r.Ob.Witness)
		ans = runSolver(ctx, solvers[1], vc.script(r.Ob, r.Case, strings.Join(w, "\n"), rp.queries), 20)
		if ans.status != "sat" {
			ans = runSolver(ctx, solvers[0], vc.script(r.Ob, r.Case, strings.Join(w, "\n"), rp.queries), 20)
		}
	}
	if len(small) > 0 && ans.status != "sat" {
		ans = runSolver(ctx, solvers[0], vc.script(r.Ob, r.Case, strings.Join(small, "\n"), rp.queries), 20)
		if ans.status != "sat" {
			ans = runSolver(ctx, solvers[1], vc.script(r.Ob, r.Case, strings.Join(small, "\n"), rp.queries), 20)
		}
	}
	script := vc.script(r.Ob, r.Case, "", rp.queries)
	for _, sp := range solvers {
		if ans.status == "sat" {
			break
		}
		if sp.name == r.Solver || r.Solver == "" {
			ans = runSolver(ctx, sp, script, 50)
			break
		}
	}
	if ans.status != "sat" {
		ans = runSolver(ctx, solvers[0], script, 50)
	}
	if ans.status != "sat" {
		return replayOut{text: "replay: could not obtain model values (" + ans.status + ")\n"}
	}
	body := ans.out[strings.Index(ans.out, "\n")+1:]
	root, _ := parseSx(body)
	if root == nil || len(root.list) < len(rp.queries) {
		return replayOut{text: "replay: could not parse model values\n"}
	}
	for i := range rp.queries {
		pair := root.list[i]
		if len(pair.list) == 2 {
			rp.vals = append(rp.vals, pair.list[1])
		} else {
			rp.vals = append(rp.vals, nil)
		}
	}
	fmt.Fprintf(&out, "counterexample (parameters, from the %s model):\n", ans.solver)
	var args []string
	for i, p := range plans {
		ex := rp.expr(p)
		name := vc.ParamName[i]
		tn, ok := rp.typeName(p.ty)
		if !ok {
			fmt.Fprintf(&out, "  %s: type %s cannot be named from a test; not replayed\n", name, p.ty)
			return replayOut{text: out.String()}
		}
		a := fmt.Sprintf("a%d", i)
		switch p.kind {
		case "int":
			fmt.Fprintf(&rp.code, "\tvar %s %s = %s(%s)\n", a, tn, tn, rp.intVal(p).String())
			fmt.Fprintf(&out, "  %s = %s\n", name, rp.intVal(p).String())
		case "skip":
			fmt.Fprintf(&rp.code, "\tvar %s %s\n", a, tn)
			rp.partial = append(rp.partial, "parameter "+name+" of type "+tn+" left at its zero value")
		default:
			if ex == "nil" {
				fmt.Fprintf(&rp.code, "\tvar %s %s\n", a, tn)
			} else {
				fmt.Fprintf(&rp.code, "\tvar %s %s = %s\n", a, tn, ex)
			}
			fmt.Fprintf(&out, "  %s = %s\n", name, summarise(rp, p))
		}
		args = append(args, a)
	}
	if rp.huge {
		fmt.Fprintf(&out, "replay: the model needs an allocation too large to replay safely; not replayed\n")
		return replayOut{text: out.String()}
	}
	// the call
	var call string
	if fn.Signature.Recv() != nil {
		call = fmt.Sprintf("%s.%s(%s)", args[0], fn.Name(), strings.Join(args[1:], ", "))
	} else {
		call = fmt.Sprintf("%s(%s)", fn.Name(), strings.Join(args, ", "))
	}
	want := expectedPanic(r.Ob)
	var src bytes.Buffer
	fmt.Fprintf(&src, "package %s\n\nimport (\n\t\"fmt\"\n\t\"math\"\n\t\"os\"\n\t\"reflect\"\n\t\"runtime\"\n\t\"runtime/debug\"\n\t\"testing\"\n\t\"time\"\n\t\"unsafe\"\n", fn.Pkg.Pkg.Name())
	for path, name := range rp.imports {
		if path == "fmt" || path == "math" || path == "os" || path == "reflect" || path == "runtime" || path == "runtime/debug" || path == "testing" || path == "time" || path == "unsafe" {
			continue
		}
		fmt.Fprintf(&src, "\t%s %q\n", name, path)
	}
	fmt.Fprintf(&src, ")\n\nvar _ = math.Pi\nvar _ = fmt.Sprint\nvar _ = time.Now\n%s\n", replayRuntime)
	fmt.Fprintf(&src, "// replay of obligation %s\nfunc TestVerifReplay(t *testing.T) {\n", r.Ob.Name)
	fmt.Fprintf(&src, "\tdone := make(chan string, 1)\n\tgo func() {\n\t\tvar ms0, ms1 runtime.MemStats\n\t\tinb := 0\n\t\tdefer func() {\n\t\t\tif r := recover(); r != nil {\n\t\t\t\tst := []byte(debug.Stack())\n\t\t\t\tfor i := range st {\n\t\t\t\t\tif st[i] == '\\n' || st[i] == '\\t' {\n\t\t\t\t\t\tst[i] = ' '\n\t\t\t\t\t}\n\t\t\t\t}\n\t\t\t\tdone <- fmt.Sprint(\"PANIC: \", r, \" STACK: \", string(st))\n\t\t\t\treturn\n\t\t\t}\n\t\t\truntime.ReadMemStats(&ms1)\n\t\t\tdone <- fmt.Sprintf(\"RETURNED alloc=%%d input=%%d\", ms1.TotalAlloc-ms0.TotalAlloc, inb)\n\t\t}()\n")
	src.Write(rp.code.Bytes())
	for i, p := range plans {
		if sl, ok := p.ty.Underlying().(*types.Slice); ok {
			if bt, ok := sl.Elem().Underlying().(*types.Basic); ok && bt.Kind() == types.Uint8 {
				fmt.Fprintf(&src, "\t\tinb += len(a%d)\n", i)
			}
		}
	}
	fmt.Fprintf(&src, "\t\truntime.ReadMemStats(&ms0)\n")
	fmt.Fprintf(&src, "\t\t%s\n\t}()\n", indentCall(call, fn.Signature.Results().Len()))
	fmt.Fprintf(&src, "\tselect {\n\tcase m := <-done:\n\t\tfmt.Fprintln(os.Stderr, \"VPREPLAY\", m)\n\tcase <-time.After(20 * time.Second):\n\t\tfmt.Fprintln(os.Stderr, \"VPREPLAY HANG: no return after 20s\")\n\t}\n}\n")
	testFile := filepath.Join(dir, mangle(r.Ob.Name)+"_test.go.txt")
	_ = os.WriteFile(testFile, src.Bytes(), 0o644)
	pkgDir := filepath.Dir(g.prog.Fset.Position(fn.Pos()).Filename)
	ovPath := filepath.Join(dir, mangle(r.Ob.Name)+".overlay.json")
	ov := map[string]map[string]string{"Replace": {filepath.Join(pkgDir, "zz_verif_replay_test.go"): testFile}}
	ovData, _ := json.Marshal(ov)
	_ = os.WriteFile(ovPath, ovData, 0o644)
	cctx, ccancel := context.WithTimeout(context.Background(), 180*time.Second)
	defer ccancel()
	cmd := exec.CommandContext(cctx, "go", "test", "-overlay", ovPath, "-exec", filepath.Join(g.verifDir, "tools", "memlimit.sh"), "-vet=off", "-tags", "verif", "-count=1", "-v", "-timeout", "60s", "-run", "^TestVerifReplay$", ".")
	cmd.Dir = pkgDir
	cmd.Env = append(os.Environ(), "GOFLAGS=-mod=mod", "GOPROXY=off", "GOSUMDB=off", "GOTOOLCHAIN=local")
	res, _ := cmd.CombinedOutput()
	outcome := ""
	for _, l := range strings.Split(string(res), "\n") {
		if strings.HasPrefix(l, "VPREPLAY ") {
			outcome = strings.TrimPrefix(l, "VPREPLAY ")
		}
	}
	fmt.Fprintf(&out, "replay test: %s\nreplay command: (cd %s && go test -overlay %s -vet=off -tags verif -count=1 -timeout 60s -run '^TestVerifReplay$' .)\n", testFile, pkgDir, ovPath)
	for _, p := range rp.partial {
		fmt.Fprintf(&out, "  note: %s\n", p)
	}
	if outcome == "" && (strings.Contains(string(res), "out of memory") || strings.Contains(string(res), "cannot allocate memory")) {
		outcome = "OOM: the Go runtime ran out of memory under the 4 GiB address-space limit of the replay"
	}
	confirmed := false
	// A panic confirms a safety obligation only if it happens where the obligation is: the stack of the
	// panic must contain the obligation's source position (a replay input is partial -- interfaces of
	// unknown dynamic type stay nil -- and can make the function panic somewhere else for that reason).
	atPosition := true
	if i := strings.Index(outcome, " STACK: "); i >= 0 {
		stack := outcome[i:]
		outcome = outcome[:i]
		pos := r.Ob.Pos
		if j := strings.LastIndex(pos, "/"); j >= 0 && !strings.Contains(stack, "/"+pos+" ") {
			pos = pos[j+1:]
		}
		atPosition = pos == "" || strings.Contains(stack, "/"+pos+" ")
	}
	switch {
	case strings.HasPrefix(outcome, "PANIC") && !atPosition:
		fmt.Fprintf(&out, "replay outcome on the real code: %s — but not at %s: the (partial) replay input makes the function panic elsewhere; this does not exhibit the failed obligation\n", outcome, r.Ob.Pos)
	case r.Ob.Kind == "alloc" && strings.HasPrefix(outcome, "OOM"):
		confirmed = true
		fmt.Fprintf(&out, "replay outcome on the real code: %s — CONFIRMED (allocation obligation)\n", outcome)
	case r.Ob.Kind == "alloc" && strings.HasPrefix(outcome, "RETURNED alloc="):
		var al, in int64
		fmt.Sscanf(outcome, "RETURNED alloc=%d input=%d", &al, &in)
		if al > 64*in+(4<<20) {
			confirmed = true
			fmt.Fprintf(&out, "replay outcome on the real code: %s — CONFIRMED: more than 64*input + 4 MiB allocated\n", outcome)
		} else {
			fmt.Fprintf(&out, "replay outcome on the real code: %s — within 64*input + 4 MiB; not exhibited by this input\n", outcome)
		}
	case outcome == "":
		fmt.Fprintf(&out, "replay outcome: the replay test did not run to completion:\n%s\n", trim(string(res), 3000))
	case strings.HasPrefix(outcome, "HANG") && (r.Ob.Kind == "decreases"):
		confirmed = true
		fmt.Fprintf(&out, "replay outcome on the real code: %s — CONFIRMED (termination obligation)\n", outcome)
	case strings.HasPrefix(outcome, "PANIC") && want != "" && strings.Contains(outcome, want):
		confirmed = true
		fmt.Fprintf(&out, "replay outcome on the real code: %s — CONFIRMED\n", outcome)
	case strings.HasPrefix(outcome, "PANIC") && want == "*":
		confirmed = true
		fmt.Fprintf(&out, "replay outcome on the real code: %s — CONFIRMED\n", outcome)
	default:
		fmt.Fprintf(&out, "replay outcome on the real code: %s — does not by itself exhibit the failed obligation (postconditions are not evaluated by the replay; model may depend on abstracted callees)\n", outcome)
	}
	return replayOut{text: out.String(), confirmed: confirmed}
}

func indentCall(call string, nres int) string {
	if nres == 0 {
		return call
	}
	lhs := make([]string, nres)
	for i := range lhs {
		lhs[i] = "_"
	}
	return strings.Join(lhs, ", ") + " = " + call
}

func expectedPanic(ob *Obligation) string {
	switch ob.Kind {
	case "bounds":
		return "out of range"
	case "nil":
		return "nil pointer"
	case "nilmap":
		return "nil map"
	case "typeassert":
		return "interface conversion"
	case "makelen":
		return "makeslice"
	case "div0":
		return "divide by zero"
	case "shift":
		return "negative shift"
	case "assert":
		i := strings.LastIndex(ob.Name, "#")
		return "verif: assertion failed: "
		_ = i
	case "panic":
		return "*"
	}
	if strings.HasPrefix(ob.Kind, "pre:") {
		// panicking preconditions of assumed library contracts (package reflect)
		switch {
		case strings.HasSuffix(ob.Name, "#makelen") || strings.Contains(ob.Name, "#makelen@"):
			return "MakeSlice"
		case strings.HasSuffix(ob.Name, "#index") || strings.Contains(ob.Name, "#index@"):
			return "index out of range"
		case strings.HasSuffix(ob.Name, "#slice") || strings.Contains(ob.Name, "#slice@"):
			return "slice index out of bounds"
		}
		return ""
	}
	return ""
}

func summarise(rp *replayer, p *rplan) string {
	switch p.kind {
	case "slice":
		n, _ := sxInt(rp.vals[p.idx])
		var bs []string
		for i, e := range p.elems {
			if n != nil && int64(i) >= signed64(n) || i >= 24 {
				break
			}
			if e.kind == "int" {
				bs = append(bs, fmt.Sprintf("%02x", rp.intVal(e).Uint64()&0xff))
			}
		}
		ln := "?"
		if n != nil {
			ln = fmt.Sprint(signed64(n))
		}
		return fmt.Sprintf("slice len=%s first bytes=[%s]", ln, strings.Join(bs, " "))
	case "ptr":
		ref, _ := sxInt(rp.vals[p.idx])
		if ref == nil || ref.Sign() == 0 {
			return "nil"
		}
		return "&{...} (see replay test)"
	case "bool", "str":
		return rp.expr(p)
	}
	return p.kind
}
