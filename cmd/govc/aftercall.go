package main

// Call-site contracts (`after "<call text>" ...`): an assumed fact about one call, keyed by the
// exact source text of the call expression. If the code at the call site changes, the pattern no
// longer matches, the assumption is not applied and the callee is treated as unknown.

import (
	"bytes"
	"fmt"
	"go/ast"
	"go/printer"
	"go/token"
	"sort"
	"strings"

	"golang.org/x/tools/go/ssa"
)

func (tr *Tr) callText(fn *ssa.Function, lparen token.Pos) string {
	if tr.callTexts == nil {
		tr.callTexts = map[token.Pos]string{}
		if syn := fn.Syntax(); syn != nil {
			ast.Inspect(syn, func(n ast.Node) bool {
				if ce, ok := n.(*ast.CallExpr); ok {
					var b bytes.Buffer
					_ = printer.Fprint(&b, tr.G.prog.Fset, ce)
					tr.callTexts[ce.Lparen] = strings.Join(strings.Fields(b.String()), "")
				}
				return true
			})
		}
	}
	return tr.callTexts[lparen]
}

// afterCall applies a call-site contract if one matches; ok=false otherwise.
func (tr *Tr) afterCall(fr *frame, x *ssa.Call) (Val, bool) {
	if !fr.top || fr.contract == nil || len(fr.contract.After) == 0 {
		return Val{}, false
	}
	text := tr.callText(fr.fn, x.Pos())
	var as *AfterSpec
	for _, a := range fr.contract.After {
		if a.Pattern == text {
			as = a
		}
	}
	if as == nil {
		return Val{}, false
	}
	as.Used = true
	tr.vc.CallSite = append(tr.vc.CallSite, "assumed call-site contract in "+shortFuncName(fr.fn)+": after "+as.Text)
	pre := fr.heap.clone()
	preA := tr.curA(fr)
	env := tr.entryEnv(fr)
	env.heap, env.old, env.oldA, env.curA = pre, pre, preA, preA
	// the call's actual arguments are available as arg0, arg1, ... (receiver first)
	argNames := map[string]Val{}
	for i, a := range x.Call.Args {
		v := tr.val(fr, a)
		if v.Nil {
			v = Val{T: tr.C.zero(a.Type()), Ty: a.Type()}
		}
		argNames[fmt.Sprintf("arg%d", i)] = v
	}
	env = env.with(argNames)
	// havoc
	fake := &Contract{Assigns: as.Assigns, HasAssigns: true, PkgPath: fr.contract.PkgPath}
	tg := tr.assignTargets(fr, fake, env)
	var ks []string
	for k := range tg {
		ks = append(ks, k)
	}
	sort.Strings(ks)
	for _, k := range ks {
		t := tg[k]
		if k == "*" {
			vfail("after: assigns * is not supported at a call site")
		}
		if t.all {
			fr.heap.m[k] = tr.declareConst(tr.C.heapSort[k], k+"_call")
			continue
		}
		cur := tr.C.hget(fr.heap, k)
		for _, r := range t.refs {
			cur = sto(cur, r, tr.declareConst(elemSortOfArray(tr.C.heapSort[k]), k+"_at"))
		}
		fr.heap.m[k] = tr.define(tr.C.heapSort[k], cur, k)
	}
	oldA := tr.curA(fr)
	newA := tr.declareConst("Int", "A_call")
	tr.assume("true", app(">=", newA, oldA))
	fr.heap.m["ALLOC"] = newA
	res := tr.freshResult(fr, x.Type(), "ret_after")
	post := tr.entryEnv(fr).with(argNames)
	post.heap, post.old, post.oldA, post.curA = fr.heap, pre, preA, tr.curA(fr)
	if len(res.Tuple) > 0 {
		post.results = res.Tuple
	} else if res.T != "" {
		post.results = []Val{res}
	}
	for k, e := range as.Ensures {
		t, err := post.evalBool(e.S)
		if err != nil {
			vfail("%s: after %s: ensures %s: %v", fr.fn, as.Text, clauseLabel(e, k), err)
		}
		tr.assume(fr.curReach, t)
	}
	return res, true
}
