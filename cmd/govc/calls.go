package main

// Calls: contracts, inlining, builtins, unknown callees, defers, loop mod-sets.

import (
	"fmt"
	"go/token"
	"go/types"
	"sort"
	"strings"

	"golang.org/x/tools/go/ssa"
)

const modulePath = "github.com/gopcua/opcua"

var inlineStdlib = map[string]bool{"encoding/binary": true, "math": true, "math/bits": true}

func inModule(fn *ssa.Function) bool {
	return fn.Pkg != nil && strings.HasPrefix(fn.Pkg.Pkg.Path(), modulePath)
}

func hasBackEdge(fn *ssa.Function) bool {
	for _, b := range fn.Blocks {
		for _, s := range b.Succs {
			if isBackEdge(b, s) {
				return true
			}
		}
	}
	return false
}

func (tr *Tr) canInline(fr *frame, fn *ssa.Function) bool {
	if len(fn.Blocks) == 0 || fr.depth >= 7 || countInstr(fn) > 220 || hasBackEdge(fn) {
		return false
	}
	for _, s := range fr.stack {
		if s == fn {
			return false
		}
	}
	if fn.Pkg == nil {
		// synthetic wrappers / instantiations
		return fn.Synthetic != "" && fn.Recover == nil
	}
	if fn.Recover != nil && callsRecover(fn) {
		// a function that recovers from panics changes control flow in a way the translation does not
		// follow; one that merely defers calls (its recover block is unreachable) is inlined like any other
		return false
	}
	if fn.Pkg.Pkg.Path() == "math" {
		// bit casts through unsafe.Pointer (and what is built on them): uninterpreted pure functions
		switch fn.Name() {
		case "Float32frombits", "Float64frombits", "Float32bits", "Float64bits", "NaN", "Inf", "IsNaN", "IsInf":
			return false
		}
	}
	return inModule(fn) || inlineStdlib[fn.Pkg.Pkg.Path()]
}

// callsRecover: the function (or a closure it defers) calls the builtin recover
func callsRecover(fn *ssa.Function) bool {
	var walk func(f *ssa.Function, depth int) bool
	walk = func(f *ssa.Function, depth int) bool {
		for _, b := range f.Blocks {
			for _, ins := range b.Instrs {
				var cc *ssa.CallCommon
				switch x := ins.(type) {
				case *ssa.Call:
					cc = &x.Call
				case *ssa.Defer:
					cc = &x.Call
				}
				if cc == nil {
					continue
				}
				if bi, ok := cc.Value.(*ssa.Builtin); ok && bi.Name() == "recover" {
					return true
				}
				if mc, ok := cc.Value.(*ssa.MakeClosure); ok && depth < 3 {
					if cf, ok := mc.Fn.(*ssa.Function); ok && walk(cf, depth+1) {
						return true
					}
				}
				if cf, ok := cc.Value.(*ssa.Function); ok && depth < 3 && cf.Parent() != nil && walk(cf, depth+1) {
					return true
				}
			}
		}
		return false
	}
	return walk(fn, 0)
}

func carriesRefs(t types.Type, seen map[types.Type]bool) bool {
	if seen[t] {
		return false
	}
	seen[t] = true
	switch u := t.Underlying().(type) {
	case *types.Pointer, *types.Slice, *types.Map, *types.Chan, *types.Signature, *types.Interface:
		return true
	case *types.Struct:
		for i := 0; i < u.NumFields(); i++ {
			if carriesRefs(u.Field(i).Type(), seen) {
				return true
			}
		}
	case *types.Array:
		return carriesRefs(u.Elem(), seen)
	case *types.Basic:
		return u.Kind() == types.UnsafePointer
	}
	return false
}

func (tr *Tr) call(fr *frame, site ssa.Value, cc *ssa.CallCommon, pos token.Pos) Val {
	var rt types.Type = types.NewTuple()
	if site != nil {
		rt = site.Type()
	} else {
		rt = cc.Signature().Results()
		if cc.Signature().Results().Len() == 1 {
			rt = cc.Signature().Results().At(0).Type()
		}
	}
	var args []Val
	for i, a := range cc.Args {
		v := tr.val(fr, a)
		if v.Nil {
			v = Val{T: tr.C.zero(a.Type()), Ty: a.Type()}
		}
		_ = i
		args = append(args, v)
	}
	if b, ok := cc.Value.(*ssa.Builtin); ok {
		return tr.builtin(fr, b, cc, args, rt, pos)
	}
	if cc.IsInvoke() {
		return tr.invoke(fr, cc, args, rt, pos)
	}
	callee := cc.StaticCallee()
	var bindings []Val
	if callee == nil {
		if ci := fr.closures[cc.Value]; ci != nil {
			callee, bindings = ci.fn, ci.bindings
		}
	} else if mc, ok := cc.Value.(*ssa.MakeClosure); ok {
		if ci := fr.closures[mc]; ci != nil {
			bindings = ci.bindings
		}
	}
	if callee == nil {
		if p, ok := cc.Value.(*ssa.Parameter); ok && fr.top && fr.contract != nil {
			for _, hn := range fr.contract.Calls {
				if hn == p.Name() {
					return tr.paramCallback(fr, hn, args, rt, pos)
				}
			}
		}
		tr.vc.Unknown["dynamic call of "+shortTypeName(cc.Value.Type())]++
		return tr.havocCall(fr, args, rt, true)
	}
	return tr.staticCall(fr, callee, args, bindings, rt, pos, cc)
}

func (tr *Tr) staticCall(fr *frame, callee *ssa.Function, args []Val, bindings []Val, rt types.Type, pos token.Pos, cc *ssa.CallCommon) Val {
	name := callee.String()
	// sync/atomic on a location whose place is known (the address of a field or element): the
	// operation itself, under the sequential semantics every function is verified with
	if callee.Pkg != nil && callee.Pkg.Pkg.Path() == "sync/atomic" && cc != nil && len(cc.Args) >= 1 {
		if pl := fr.places[cc.Args[0]]; pl != nil && (pl.kind == plField || pl.kind == plCell || pl.kind == plElem) && isInt(pl.ty) {
			w := intWidth(pl.ty)
			cur := tr.loadPlace(pl, fr.heap)
			switch {
			case strings.HasPrefix(callee.Name(), "Add") && len(args) == 2:
				nv := tr.define(bvSort(w), app("bvadd", cur.T, args[1].T), "atomic_add")
				tr.storePlace(pl, fr.heap, nv)
				return Val{T: nv, Ty: pl.ty}
			case strings.HasPrefix(callee.Name(), "Load") && len(args) == 1:
				return Val{T: tr.define(bvSort(w), cur.T, "atomic_load"), Ty: pl.ty}
			case strings.HasPrefix(callee.Name(), "Store") && len(args) == 2:
				tr.storePlace(pl, fr.heap, args[1].T)
				return Val{Ty: rt}
			}
		}
	}
	// verification intrinsics
	if strings.HasSuffix(name, ".verifAssert") && len(args) == 2 {
		lab := "?"
		if cc != nil {
			if c, ok := cc.Args[0].(*ssa.Const); ok {
				lab = constantString(c)
			}
		}
		prop := ""
		if i := strings.Index(lab, ":"); i >= 0 {
			prop, lab = lab[:i], lab[i+1:]
		}
		tr.oblige(fr, "assert", lab, prop, fr.curReach, args[1].T, pos, "harness assertion "+lab)
		return Val{Ty: rt}
	}
	if strings.HasSuffix(name, ".verifCanary") && len(args) == 2 {
		lab := "?"
		if c, ok := cc.Args[0].(*ssa.Const); ok {
			lab = constantString(c)
		}
		prop := ""
		if i := strings.Index(lab, ":"); i >= 0 {
			prop, lab = lab[:i], lab[i+1:]
		}
		ob := tr.oblige(fr, "canary", lab, prop, fr.curReach, args[1].T, pos, "deliberately wrong assertion "+lab+" (expects sat)")
		ob.Canary = true
		return Val{Ty: rt}
	}
	if c := tr.calleeContract(name); c != nil && !c.Inline && tr.pure == 0 {
		tr.closureBindings = bindings
		return tr.applyContract(fr, callee, c, args, rt, pos, cc)
	}
	if tr.canInline(fr, callee) {
		return tr.inline(fr, callee, args, bindings, rt, pos)
	}
	if callee.Pkg != nil && pureStdlib[callee.Pkg.Pkg.Path()] {
		// side-effect free, deterministic library functions on plain values: an uninterpreted function
		// of the arguments (the same symbol a specification gets when it calls the function)
		valueArgs := true
		var sorts, ts []string
		for _, a := range args {
			if carriesRefs(a.Ty, map[types.Type]bool{}) {
				valueArgs = false
			}
			sorts = append(sorts, tr.C.sortOf(a.Ty))
			ts = append(ts, a.T)
		}
		if valueArgs {
			mk := func(t types.Type, suffix string) Val {
				fn := "pure_" + mangle(callee.String()) + suffix
				tr.C.declare(fn, fmt.Sprintf("(declare-fun %s (%s) %s)", fn, strings.Join(sorts, " "), tr.C.sortOf(t)))
				v := Val{T: fn, Ty: t}
				if len(ts) > 0 {
					v.T = app(fn, ts...)
				}
				v.T = tr.define(tr.C.sortOf(t), v.T, "pure")
				tr.assume(fr.curReach, tr.wf(v))
				return v
			}
			tr.C.assumpt["modelled as an uninterpreted deterministic function of its arguments: "+callee.String()] = true
			if tup, ok := rt.(*types.Tuple); ok {
				if tup.Len() == 0 {
					return Val{Ty: rt}
				}
				var vs []Val
				for i := 0; i < tup.Len(); i++ {
					sfx := ""
					if i > 0 {
						sfx = fmt.Sprintf("!%d", i)
					}
					vs = append(vs, mk(tup.At(i).Type(), sfx))
				}
				return Val{Tuple: vs, Ty: rt}
			}
			return mk(rt, "")
		}
	}
	if tr.pure > 0 {
		// inside a specification an unknown callee is an uninterpreted (deterministic) function of
		// its arguments, provided they are plain values
		var sorts, ts []string
		for _, a := range args {
			if carriesRefs(a.Ty, map[types.Type]bool{}) {
				vfail("specification calls %s with reference arguments; it has neither contract nor inlinable body", callee)
			}
			sorts = append(sorts, tr.C.sortOf(a.Ty))
			ts = append(ts, a.T)
		}
		if tup, ok := rt.(*types.Tuple); ok && tup.Len() != 1 {
			vfail("specification calls %s, which does not have exactly one result", callee)
		} else if ok {
			rt = tup.At(0).Type()
		}
		fn := "pure_" + mangle(callee.String())
		tr.C.declare(fn, fmt.Sprintf("(declare-fun %s (%s) %s)", fn, strings.Join(sorts, " "), tr.C.sortOf(rt)))
		tr.C.assumpt["uninterpreted in specifications and code alike: "+callee.String()] = true
		if len(ts) == 0 {
			return Val{T: fn, Ty: rt}
		}
		return Val{T: app(fn, ts...), Ty: rt}
	}
	tr.vc.Unknown[shortFuncName(callee)]++
	touches := false
	for _, a := range args {
		if carriesRefs(a.Ty, map[types.Type]bool{}) {
			touches = true
		}
	}
	if inModule(callee) {
		touches = true // module functions can reach module state through globals
	}
	return tr.havocCall(fr, args, rt, touches)
}

func (tr *Tr) havocCall(fr *frame, args []Val, rt types.Type, havocHeap bool) Val {
	if havocHeap {
		oldA := tr.curA(fr)
		fr.heap = fr.heap.havocAll()
		newA := tr.declareConst("Int", "A_call")
		tr.assume("true", app(">=", newA, oldA))
		fr.heap.m["ALLOC"] = tr.noteEpoch(fr.heap, newA)
		tr.vc.Abstract["havoc-heap-at-unknown-call"]++
	}
	return tr.freshResult(fr, rt, "ret")
}

func (tr *Tr) freshResult(fr *frame, rt types.Type, hint string) Val {
	if tup, ok := rt.(*types.Tuple); ok {
		if tup.Len() == 0 {
			return Val{Ty: rt}
		}
		var vs []Val
		for i := 0; i < tup.Len(); i++ {
			vs = append(vs, tr.freshResult(fr, tup.At(i).Type(), hint))
		}
		return Val{Tuple: vs, Ty: rt}
	}
	v := tr.freshVal(rt, hint)
	tr.assume(fr.curReach, tr.wf(v))
	tr.assume(fr.curReach, tr.belowAlloc(v, tr.curA(fr)))
	return v
}

func shortCallee(fn *ssa.Function) string {
	s := shortFuncName(fn)
	if i := strings.LastIndex(s, "."); i >= 0 && !strings.HasPrefix(s, "(") {
		return s[i+1:]
	}
	if i := strings.LastIndex(s, ")."); i >= 0 {
		return s[i+2:]
	}
	return s
}

// calleeContract: the contract a call of `name` is checked against: the variant the function under
// verification asks for with `use name@variant`, else the function's main contract.
func (tr *Tr) calleeContract(name string) *Contract {
	if top := tr.vc.Contract; top != nil && top.Use != nil {
		if v, ok := top.Use[name]; ok {
			if c := tr.G.contracts.Funcs[name+"@"+v]; c != nil {
				return c
			}
			vfail("use %s@%s: no such contract", name, v)
		}
	}
	return tr.G.contracts.Funcs[name]
}

func paramNames(callee *ssa.Function, c *Contract) []string {
	var ns []string
	if len(c.Params) > 0 {
		return c.Params
	}
	for _, p := range callee.Params {
		ns = append(ns, p.Name())
	}
	if len(ns) == 0 {
		sig := callee.Signature
		if sig.Recv() != nil {
			ns = append(ns, sig.Recv().Name())
		}
		for i := 0; i < sig.Params().Len(); i++ {
			ns = append(ns, sig.Params().At(i).Name())
		}
	}
	return ns
}

func (tr *Tr) applyContract(fr *frame, callee *ssa.Function, c *Contract, args []Val, rt types.Type, pos token.Pos, cc *ssa.CallCommon) Val {
	tr.vc.UsedContr[c.Full] = true
	if c.FrameOnly && !c.Assumed && (tr.vc.Contract == nil || !tr.vc.Contract.FrameOnly) {
		// the callee's contract says what it writes, not that it does not panic
		tr.vc.Abstract["call of a frame_only contract (panics of the callee are not excluded): "+c.Key]++
	}
	names := map[string]Val{}
	for i, n := range paramNames(callee, c) {
		if i < len(args) {
			names[n] = args[i]
		}
	}
	// a closure's free variables (captured by reference: each is a pointer to the variable)
	for i, fv := range callee.FreeVars {
		if i < len(tr.closureBindings) {
			names[fv.Name()] = tr.closureBindings[i]
		}
	}
	tr.closureBindings = nil
	// type variables of a generic assumed contract, bound from the static types at this call site
	if len(c.Generics) > 0 {
		saved := tr.typeVars
		tr.typeVars = map[string]types.Type{}
		defer func() { tr.typeVars = saved }()
		pn := paramNames(callee, c)
		for _, g := range c.Generics {
			var bound types.Type
			for i, n := range pn {
				if n != g[1] || cc == nil {
					continue
				}
				ai := i // callee.Params and the arguments of a static call both start with the receiver
				if ai < 0 || ai >= len(cc.Args) {
					continue
				}
				if mi, ok := cc.Args[ai].(*ssa.MakeInterface); ok {
					if pt, ok := mi.X.Type().Underlying().(*types.Pointer); ok {
						bound = pt.Elem()
					}
				}
			}
			if bound == nil {
				vfail("%s: call of %s: cannot bind type variable %s (argument %s is not a pointer converted to an interface at the call)", fr.fn, c.Key, g[0], g[1])
			}
			tr.typeVars[g[0]] = bound
		}
	}
	pkg := tr.G.typesPkg[c.PkgPath]
	if pkg == nil && callee.Pkg != nil {
		pkg = callee.Pkg.Pkg
	}
	pre := fr.heap.clone()
	preA := tr.curA(fr)
	env := &specEnv{tr: tr, pkg: pkg, names: names, heap: pre, old: pre, oldA: preA, curA: preA}
	for _, l := range c.Lets {
		v, err := env.evalVal(l.S)
		if err != nil {
			vfail("%s: contract of %s: let %s: %v", fr.fn, c.Key, l.Name, err)
		}
		if v.K != nil {
			v = env.coerce(v, tInt)
		}
		names[l.Name] = v
	}
	sc := shortCallee(callee)
	for k, r := range c.Requires {
		t, err := env.evalBool(r.S)
		if err != nil {
			vfail("%s: contract of %s: requires %s: %v", fr.fn, c.Key, clauseLabel(r, k), err)
		}
		if tr.inCallback > 0 && r.Label == "arg" {
			// environment guarantee of a callback: the higher-order callee passes well-formed arguments
			tr.assume(fr.curReach, t)
			tr.vc.CallSite = append(tr.vc.CallSite, "assumed: callback arguments of "+c.Key+" satisfy its [arg] precondition: "+r.Text)
			continue
		}
		tr.oblige(fr, "pre:"+sc, clauseLabel(r, k), r.Prop, fr.curReach, t, pos, "precondition of "+c.Key+": "+r.Text)
	}
	// allocation requests of the callee against the maxalloc clause of the function under verification
	for _, ac := range []*Clause{c.Allocates, c.MaxAlloc} {
		if ac == nil || tr.topFrame == nil || tr.topFrame.contract == nil || tr.topFrame.contract.MaxAlloc == nil {
			continue
		}
		if ac == c.MaxAlloc && tr.topFrame.contract == c {
			continue // recursion: the same bound in terms of a smaller input is the callee's own obligation
		}
		av, err := env.evalVal(ac.S)
		if err != nil {
			vfail("%s: contract of %s: allocates/maxalloc: %v", fr.fn, c.Key, err)
		}
		if av.K != nil {
			av = env.coerce(av, tInt)
		}
		tr.allocRequest(fr, to64(av), pos, "call of "+c.Key)
	}
	// direct recursion: the callee's measure at the call is below the measure at entry, which is not negative
	if c.Decreases != nil && tr.topFrame != nil && callee == tr.topFrame.fn && tr.topFrame.contract == c {
		mv, err := env.evalVal(c.Decreases.S)
		if err != nil {
			vfail("%s: contract of %s: decreases: %v", fr.fn, c.Key, err)
		}
		if mv.K != nil {
			mv = env.coerce(mv, tInt)
		}
		e0, err := tr.entryEnv(tr.topFrame).evalVal(c.Decreases.S)
		if err != nil {
			vfail("%s: contract of %s: decreases at entry: %v", fr.fn, c.Key, err)
		}
		if e0.K != nil {
			e0 = env.coerce(e0, tInt)
		}
		f := and(app("bvsge", e0.T, bvI(0, intWidth(e0.Ty))), app("bvslt", mv.T, e0.T))
		tr.oblige(fr, "decreases", "rec:"+sc, c.Decreases.Prop, fr.curReach, f, pos, "measure of the recursive call is below the measure at entry, which is bounded below: "+c.Decreases.Text)
	}
	// havoc what the callee may assign
	if !c.HasAssigns {
		oldA := tr.curA(fr)
		fr.heap = fr.heap.havocAll()
		newA := tr.declareConst("Int", "A_call")
		tr.assume("true", app(">=", newA, oldA))
		fr.heap.m["ALLOC"] = tr.noteEpoch(fr.heap, newA)
	} else {
		tg := tr.assignTargets(fr, c, env)
		if t := tg["*"]; t != nil && t.all {
			oldA := tr.curA(fr)
			fr.heap = fr.heap.havocAll()
			newA := tr.declareConst("Int", "A_call")
			tr.assume("true", app(">=", newA, oldA))
			fr.heap.m["ALLOC"] = tr.noteEpoch(fr.heap, newA)
		} else {
			var ks []string
			for k := range tg {
				ks = append(ks, k)
			}
			sort.Strings(ks)
			for _, k := range ks {
				t := tg[k]
				old := tr.C.hget(fr.heap, k)
				if t.all {
					fr.heap.m[k] = tr.declareConst(tr.C.heapSort[k], k+"_call")
					continue
				}
				cur := old
				cur = tr.sinceHavoc(fr, k, cur, t)
				for _, r := range t.refs {
					fv := tr.declareConst(elemSortOfArray(tr.C.heapSort[k]), k+"_at")
					cur = sto(cur, r, fv)
				}
				for _, in := range t.inner {
					// only a window of the array at in[0] changes: a fresh array that agrees with the old
					// one outside [in[1], in[2])
					if len(in) != 3 {
						continue
					}
					asrt := elemSortOfArray(tr.C.heapSort[k])
					na := tr.declareConst(asrt, k+"_win")
					oldArr := sel(cur, in[0])
					q := tr.C.fresh("k")
					tr.assume(fr.curReach, fmt.Sprintf("(forall ((%s %s)) (! (=> (or (bvslt %s %s) (bvsge %s %s)) (= (select %s %s) (select %s %s))) :pattern ((select %s %s))))",
						q, innerIndexSort(tr.C.heapSort[k]), q, in[1], q, in[2], na, q, oldArr, q, na, q))
					cur = sto(cur, in[0], na)
				}
				fr.heap.m[k] = tr.define(tr.C.heapSort[k], cur, k)
			}
			// the callee may allocate: objects it allocated are unconstrained, the counter grows
			oldA := tr.curA(fr)
			newA := tr.declareConst("Int", "A_call")
			tr.assume("true", app(">=", newA, oldA))
			tr.freshHeapAbove(fr, oldA, newA)
			fr.heap.m["ALLOC"] = tr.noteEpoch(fr.heap, newA)
		}
	}
	// callbacks: `calls h` — the callee may invoke its function argument h (at most once); the
	// names ran_h (did it run) and res_h (its result) are available to the ensures clauses
	for _, hn := range c.Calls {
		tr.callback(fr, callee, c, hn, args, names, pos, cc)
	}
	res := tr.freshResult(fr, rt, "ret_"+sc)
	post := &specEnv{tr: tr, pkg: pkg, names: names, heap: fr.heap, old: pre, oldA: preA, curA: tr.curA(fr)}
	if len(res.Tuple) > 0 {
		post.results = res.Tuple
	} else if res.T != "" {
		post.results = []Val{res}
	}
	rsig := callee.Signature.Results()
	for i := 0; i < rsig.Len(); i++ {
		post.resName = append(post.resName, rsig.At(i).Name())
	}
	if rsig.Len() >= 1 {
		if last := rsig.At(rsig.Len() - 1); last.Name() == "" && types.Identical(last.Type(), types.Universe.Lookup("error").Type()) {
			post.names = map[string]Val{}
			for k, v := range names {
				post.names[k] = v
			}
			post.names["err"] = post.results[rsig.Len()-1]
		}
	}
	for k, e := range c.Ensures {
		if e.Canary {
			continue
		}
		t, err := post.evalBool(e.S)
		if err != nil {
			vfail("%s: contract of %s: ensures %s: %v", fr.fn, c.Key, clauseLabel(e, k), err)
		}
		tr.assume(fr.curReach, t)
	}
	return res
}

// sinceHavoc: heap array k after a call that may write objects at least as young as the bounds in
// t.since: a fresh array that agrees with cur on every older object.
func (tr *Tr) sinceHavoc(fr *frame, k, cur string, t *assignTarget) string {
	if len(t.since) == 0 {
		return cur
	}
	na := tr.declareConst(tr.C.heapSort[k], k+"_since")
	q := tr.C.fresh("x")
	var older []string
	for _, b := range t.since {
		older = append(older, tr.preExisting(q, b))
	}
	tr.assume(fr.curReach, fmt.Sprintf("(forall ((%s Int)) (! (=> %s (= (select %s %s) (select %s %s))) :pattern ((select %s %s))))",
		q, and(older...), na, q, cur, q, na, q))
	return na
}

// freshHeapAbove: objects with references in [oldA, newA) were allocated by the callee; the caller knows
// nothing about them. Because every heap array is total, "unknown" is already the case for keys that
// were not touched; nothing to emit. Kept as a hook for documentation.
func (tr *Tr) freshHeapAbove(fr *frame, oldA, newA string) {}

func elemSortOfArray(s string) string {
	// "(Array Int X)" -> X
	s = strings.TrimPrefix(s, "(Array Int ")
	return strings.TrimSuffix(s, ")")
}

func (tr *Tr) inline(fr *frame, callee *ssa.Function, args []Val, bindings []Val, rt types.Type, pos token.Pos) Val {
	tr.vc.Inlined[shortFuncName(callee)]++
	k := fr.kindCtr["inl:"+callee.Name()]
	fr.kindCtr["inl:"+callee.Name()]++
	prefix := fmt.Sprintf("%sinl(%s)@%d/", fr.prefix, shortCallee(callee), k)
	nf := tr.newFrame(callee, prefix, fr.depth+1, fr.stack)
	nf.entryH, nf.entryA = fr.entryH, fr.entryA
	for i, p := range callee.Params {
		if i < len(args) {
			v := args[i]
			v.Ty = p.Type()
			nf.vals[p] = v
			nf.params[p.Name()] = v
		}
	}
	for i, fv := range callee.FreeVars {
		if i < len(bindings) {
			nf.vals[fv] = bindings[i]
		} else {
			vfail("%s: inlining closure %s without bindings", fr.fn, callee)
		}
	}
	// closures passed as arguments stay resolvable inside the callee
	tr.body(nf, fr.curReach, fr.heap)
	for b := range edgeCache[nf] {
		_ = b
	}
	delete(edgeCache, nf)
	if len(nf.rets) == 0 {
		// callee never returns (always panics): the rest of this path is dead
		tr.assume(fr.curReach, "false")
		return tr.freshResult(fr, rt, "ret")
	}
	// merge return points
	var es []inEdge
	hs := map[*ssa.BasicBlock]*Heap{}
	for i := range nf.rets {
		fake := &ssa.BasicBlock{Index: -100 - i}
		hs[fake] = nf.rets[i].heap
		es = append(es, inEdge{pred: fake, cond: nf.rets[i].reach})
	}
	tmp := &frame{heapEnd: hs}
	fr.heap = tr.mergeHeaps(tmp, es)
	var conds []string
	for _, r := range nf.rets {
		conds = append(conds, r.reach)
	}
	// paths of the callee that end in a panic are excluded (their obligations were already emitted)
	newReach := tr.define("Bool", or(conds...), prefix+"ret")
	tr.assume(fr.curReach, newReach)
	n := callee.Signature.Results().Len()
	var outs []Val
	for i := 0; i < n; i++ {
		t := nf.rets[len(nf.rets)-1].results[i].T
		ty := callee.Signature.Results().At(i).Type()
		for j := len(nf.rets) - 2; j >= 0; j-- {
			t = ite(nf.rets[j].reach, nf.rets[j].results[i].T, t)
		}
		outs = append(outs, Val{T: tr.define(tr.C.sortOf(ty), t, prefix+"res"), Ty: ty})
	}
	// closure results (a function returning a func literal)
	switch {
	case n == 0:
		return Val{Ty: rt}
	case n == 1:
		if len(nf.rets) == 1 {
			if r, ok := lastReturn(callee); ok {
				if ci := nf.closures[r.Results[0]]; ci != nil {
					outs[0].T = outs[0].T
					fr.pendingClosure = ci
				}
			}
		}
		return outs[0]
	}
	return Val{Tuple: outs, Ty: rt}
}

func lastReturn(fn *ssa.Function) (*ssa.Return, bool) {
	var r *ssa.Return
	n := 0
	for _, b := range fn.Blocks {
		if x, ok := b.Instrs[len(b.Instrs)-1].(*ssa.Return); ok {
			r = x
			n++
		}
	}
	return r, n == 1
}

// invoke: interface method call. Resolved through the dynamic type when it is evident, else unknown.
func (tr *Tr) invoke(fr *frame, cc *ssa.CallCommon, args []Val, rt types.Type, pos token.Pos) Val {
	recv := tr.val(fr, cc.Value)
	tr.safety(fr, "nil", not(eq(app("i.typ", recv.T), "0")), pos, "method call on nil interface "+cc.Method.Name())
	// evident dynamic type (the value was made from a concrete type in this function or in one it was
	// inlined into): the call is the concrete method -- its contract, or its body when inlinable. The
	// nil-interface case is the obligation above.
	if dt := tr.ifaceDyn[recv.T]; dt != nil {
		if m := tr.G.prog.LookupMethod(dt, cc.Method.Pkg(), cc.Method.Name()); m != nil {
			if _, hasC := tr.G.contracts.Funcs[m.String()]; hasC || tr.canInline(fr, m) {
				all := append([]Val{tr.unboxIface(recv.T, dt)}, args...)
				tr.vc.Inlined["invoke resolved: "+shortFuncName(m)]++
				return tr.staticCall(fr, m, all, nil, rt, pos, nil)
			}
		}
	}
	// interface-level contract: "<pkg>.<Iface>.<Method>"
	key := ifaceMethodKey(cc.Value.Type(), cc.Method.Name())
	if c := tr.G.contracts.Funcs[key]; c != nil {
		all := append([]Val{recv}, args...)
		return tr.applyIfaceContract(fr, c, cc, all, rt, pos)
	}
	tr.vc.Unknown["invoke "+key]++
	return tr.havocCall(fr, append([]Val{recv}, args...), rt, true)
}

func ifaceMethodKey(t types.Type, m string) string {
	if n, ok := t.(*types.Named); ok && n.Obj().Pkg() != nil {
		return n.Obj().Pkg().Path() + "." + n.Obj().Name() + "." + m
	}
	if n, ok := t.(*types.Named); ok {
		return n.Obj().Name() + "." + m // error.Error
	}
	return "interface." + m
}

func (tr *Tr) applyIfaceContract(fr *frame, c *Contract, cc *ssa.CallCommon, args []Val, rt types.Type, pos token.Pos) Val {
	// build a pseudo function for parameter naming: contract must give `params`
	tr.vc.UsedContr[c.Full] = true
	names := map[string]Val{}
	for i, n := range c.Params {
		if i < len(args) {
			names[n] = args[i]
		}
	}
	pkg := tr.G.typesPkg[c.PkgPath]
	pre := fr.heap.clone()
	preA := tr.curA(fr)
	env := &specEnv{tr: tr, pkg: pkg, names: names, heap: pre, old: pre, oldA: preA, curA: preA}
	for k, r := range c.Requires {
		t, err := env.evalBool(r.S)
		if err != nil {
			vfail("%s: contract of %s: requires: %v", fr.fn, c.Key, err)
		}
		tr.oblige(fr, "pre:"+cc.Method.Name(), clauseLabel(r, k), "", fr.curReach, t, pos, "precondition of "+c.Key+": "+r.Text)
	}
	if !c.HasAssigns {
		oldA := tr.curA(fr)
		fr.heap = fr.heap.havocAll()
		newA := tr.declareConst("Int", "A_call")
		tr.assume("true", app(">=", newA, oldA))
		fr.heap.m["ALLOC"] = tr.noteEpoch(fr.heap, newA)
	} else {
		tg := tr.assignTargets(fr, c, env)
		var ks []string
		for k := range tg {
			ks = append(ks, k)
		}
		sort.Strings(ks)
		if star := tg["*"]; star != nil && star.all {
			fr.heap = fr.heap.havocAll()
			ks = nil
		}
		for _, k := range ks {
			t := tg[k]
			if t.all {
				fr.heap.m[k] = tr.declareConst(tr.C.heapSort[k], k+"_call")
				continue
			}
			cur := tr.C.hget(fr.heap, k)
			cur = tr.sinceHavoc(fr, k, cur, t)
			for _, r := range t.refs {
				cur = sto(cur, r, tr.declareConst(elemSortOfArray(tr.C.heapSort[k]), k+"_at"))
			}
			fr.heap.m[k] = tr.define(tr.C.heapSort[k], cur, k)
		}
		oldA := tr.curA(fr)
		newA := tr.declareConst("Int", "A_call")
		tr.assume("true", app(">=", newA, oldA))
		fr.heap.m["ALLOC"] = tr.noteEpoch(fr.heap, newA)
	}
	for _, hn := range c.Calls {
		tr.callback(fr, nil, c, hn, args, names, pos, cc)
	}
	res := tr.freshResult(fr, rt, "ret_"+cc.Method.Name())
	post := &specEnv{tr: tr, pkg: pkg, names: map[string]Val{}, heap: fr.heap, old: pre, oldA: preA, curA: tr.curA(fr)}
	for k, v := range names {
		post.names[k] = v
	}
	if len(res.Tuple) > 0 {
		post.results = res.Tuple
	} else if res.T != "" {
		post.results = []Val{res}
	}
	rsig := cc.Signature().Results()
	if rsig.Len() >= 1 && types.Identical(rsig.At(rsig.Len()-1).Type(), types.Universe.Lookup("error").Type()) {
		post.names["err"] = post.results[rsig.Len()-1]
	}
	for _, e := range c.Ensures {
		t, err := post.evalBool(e.S)
		if err != nil {
			vfail("%s: contract of %s: ensures: %v", fr.fn, c.Key, err)
		}
		tr.assume(fr.curReach, t)
	}
	return res
}

func (tr *Tr) builtin(fr *frame, b *ssa.Builtin, cc *ssa.CallCommon, args []Val, rt types.Type, pos token.Pos) Val {
	C := tr.C
	def := func(t types.Type, term string) Val {
		return Val{T: tr.define(C.sortOf(t), term, fr.prefix+b.Name()), Ty: t}
	}
	switch b.Name() {
	case "len", "cap":
		a := args[0]
		switch u := a.Ty.Underlying().(type) {
		case *types.Slice:
			return def(tInt, app("s."+b.Name(), a.T))
		case *types.Basic:
			return def(tInt, app("slen", a.T))
		case *types.Map:
			_, _, ln := C.mapKeys(C.sortOf(u.Key()), C.sortOf(u.Elem()))
			return def(tInt, ite(eq(a.T, "0"), bvI(0, 64), sel(C.hget(fr.heap, ln), a.T)))
		case *types.Array:
			return def(tInt, bvI(u.Len(), 64))
		case *types.Pointer:
			if at, ok := u.Elem().Underlying().(*types.Array); ok {
				return def(tInt, bvI(at.Len(), 64))
			}
		case *types.Chan:
			v := tr.freshVal(tInt, "chanlen")
			tr.assume(fr.curReach, app("bvsge", v.T, bvI(0, 64)))
			return v
		}
		vfail("len/cap of %v", a.Ty)
	case "append":
		return tr.appendOp(fr, args, rt, pos)
	case "copy":
		return tr.copyOp(fr, args, pos)
	case "delete":
		mt := args[0].Ty.Underlying().(*types.Map)
		k := args[1]
		if _, ok := mt.Key().Underlying().(*types.Interface); ok {
			k = Val{T: tr.makeIfaceIfNeeded(k, cc.Args[1].Type()), Ty: mt.Key()}
		}
		tr.guardedAccess(fr, cc.Args[0], pos)
		tr.mapDelete(fr.heap, mt, args[0].T, k.T)
		return Val{Ty: rt}
	case "print", "println":
		return Val{Ty: rt}
	case "min", "max":
		isMax := b.Name() == "max"
		acc := args[0].T
		for _, nx := range args[1:] {
			switch {
			case isFloat(rt):
				// Go: a NaN argument makes the result NaN; -0.0 is smaller than 0.0
				w := intWidth(rt)
				x, y := toFP(acc, w), toFP(nx.T, w)
				lt, tie := app("fp.lt", x, y), app("fp.isNegative", x)
				if isMax {
					lt, tie = app("fp.gt", x, y), app("fp.isPositive", x)
				}
				acc = ite(app("fp.isNaN", x), acc, ite(app("fp.isNaN", y), nx.T,
					ite(lt, acc, ite(app("fp.eq", x, y), ite(tie, acc, nx.T), nx.T))))
			case isInt(rt):
				op := "bvsle"
				if isUnsigned(rt) {
					op = "bvule"
				}
				if isMax {
					acc = ite(app(op, acc, nx.T), nx.T, acc)
				} else {
					acc = ite(app(op, acc, nx.T), acc, nx.T)
				}
			default:
				vfail("builtin %s on %v", b.Name(), rt)
			}
		}
		return def(rt, acc)
	case "close":
		// closing a nil or an already closed channel panics: ghost state CHCLOSED (per channel reference);
		// it is written only here, so a channel received from the environment is not known to be open
		// unless a contract says so
		C.regHeap("CHCLOSED", "(Array Int Bool)")
		ch := args[0]
		tr.safety(fr, "close", and(not(eq(ch.T, "0")), not(sel(C.hget(fr.heap, "CHCLOSED"), ch.T))), pos, "close of a nil or already closed channel")
		fr.heap.m["CHCLOSED"] = tr.define(C.heapSort["CHCLOSED"], sto(C.hget(fr.heap, "CHCLOSED"), ch.T, "true"), "CHCLOSED")
		return Val{Ty: rt}
	case "clear":
		if mt, ok := args[0].Ty.Underlying().(*types.Map); ok {
			// clear(m): no key is present afterwards
			ks, vs := C.sortOf(mt.Key()), C.sortOf(mt.Elem())
			dom, _, ln := C.mapKeys(ks, vs)
			m := args[0].T
			fr.heap.m[dom] = tr.define(C.heapSort[dom], ite(eq(m, "0"), C.hget(fr.heap, dom), sto(C.hget(fr.heap, dom), m, "((as const (Array "+ks+" Bool)) false)")), dom)
			fr.heap.m[ln] = tr.define(C.heapSort[ln], ite(eq(m, "0"), C.hget(fr.heap, ln), sto(C.hget(fr.heap, ln), m, bvI(0, 64))), ln)
			return Val{Ty: rt}
		}
		if st, ok := args[0].Ty.Underlying().(*types.Slice); ok {
			// clear(s): the elements of s become zero values; modelled as arbitrary contents of its array
			ek := C.elemKey(C.sortOf(st.Elem()))
			na := tr.declareConst("(Array "+bv64+" "+C.sortOf(st.Elem())+")", "cleared")
			fr.heap.m[ek] = tr.define(C.heapSort[ek], sto(C.hget(fr.heap, ek), app("s.arr", args[0].T), na), ek)
			tr.vc.Abstract["builtin-clear(slice contents havoc)"]++
			return Val{Ty: rt}
		}
		tr.vc.Abstract["builtin-"+b.Name()]++
		return Val{Ty: rt}
	case "ssa:wrapnilchk":
		tr.safety(fr, "nil", not(eq(args[0].T, "0")), pos, "nil receiver in method wrapper")
		return args[0]
	}
	vfail("unsupported builtin %s", b.Name())
	return Val{}
}

func (tr *Tr) appendOp(fr *frame, args []Val, rt types.Type, pos token.Pos) Val {
	C := tr.C
	s, t := args[0], args[1]
	et := rt.Underlying().(*types.Slice).Elem()
	es := C.sortOf(et)
	ek := C.elemKey(es)
	var n string
	tIsString := isString(t.Ty)
	if tIsString {
		n = app("slen", t.T)
	} else {
		n = app("s.len", t.T)
	}
	n = tr.define(bv64, n, "app_n")
	newLen := tr.define(bv64, app("bvadd", app("s.len", s.T), n), "app_len")
	inPlace := tr.define("Bool", app("bvsle", newLen, app("s.cap", s.T)), "app_inplace")
	// nothing appended and no growth needed: same slice
	fresh := tr.alloc(fr, "app_arr")
	newCap := tr.declareConst(bv64, "app_cap")
	tr.assume(fr.curReach, and(app("bvsle", newLen, newCap), app("bvslt", newCap, bvI(1<<48, 64))))
	res := app("mkslice",
		ite(inPlace, app("s.arr", s.T), fresh),
		app("s.off", s.T), // the reallocated array is modelled at the same offset (offsets are not observable)
		newLen,
		ite(inPlace, app("s.cap", s.T), newCap))
	resN := tr.define("Slice", res, "app_res")
	// contents
	E := C.hget(fr.heap, ek)
	oldArr := sel(E, app("s.arr", s.T))
	base := tr.define(bv64, app("bvadd", app("s.off", s.T), app("s.len", s.T)), "app_base")
	var newArr string
	if cst, ok := constLen(t, tr, fr); ok && cst <= 8 && !tIsString {
		// element-wise copy of a short, constant-length tail (the variadic case)
		newArr = oldArr
		tArr := sel(E, app("s.arr", t.T))
		for i := int64(0); i < cst; i++ {
			newArr = sto(newArr, app("bvadd", base, bvI(i, 64)), sel(tArr, app("bvadd", app("s.off", t.T), bvI(i, 64))))
		}
	} else {
		// bulk copy: an uninterpreted array that agrees with the old one below `base` and with the
		// source from `base` on; stated with two quantified (triggered) axioms.
		na := tr.declareConst("(Array "+bv64+" "+es+")", "app_new")
		q := C.fresh("k")
		if tr.vc.Contract != nil && tr.vc.Contract.Bytes {
			tr.assume(fr.curReach, fmt.Sprintf("(forall ((%s %s)) (! (=> (bvslt %s %s) (= (select %s %s) (select %s %s))) :pattern ((select %s %s))))", q, bv64, q, base, na, q, oldArr, q, na, q))
			if !tIsString {
				tArr := sel(E, app("s.arr", t.T))
				tr.assume(fr.curReach, fmt.Sprintf("(forall ((%s %s)) (! (=> (and (bvsle %s %s) (bvslt %s %s)) (= (select %s %s) (select %s (bvadd %s (bvsub %s %s))))) :pattern ((select %s %s))))",
					q, bv64, base, q, q, app("bvadd", base, n), na, q, tArr, app("s.off", t.T), q, base, na, q))
			}
			if !tIsString {
				// engine lemma bvshift (a theorem of 64-bit arithmetic, /verif/lemmas/bvshift.smt2, proved by
				// the solvers in the thorough tier): the source index of an appended element lies in the source
				tr.assume(fr.curReach, bvShiftLemma(C, q, app("s.off", s.T), app("s.len", s.T), n, app("s.off", t.T), fmt.Sprintf("(select %s %s)", na, q)))
			}
			// an append in place leaves the elements behind the new length alone
			tr.assume(fr.curReach, fmt.Sprintf("(=> %s (forall ((%s %s)) (! (=> (bvsge %s %s) (= (select %s %s) (select %s %s))) :pattern ((select %s %s)))))",
				inPlace, q, bv64, q, app("bvadd", base, n), na, q, oldArr, q, na, q))
			tr.vc.Abstract["append-bulk-copy(quantified)"]++
		} else {
			tr.vc.Abstract["append-bulk-copy(contents havoc)"]++
		}
		newArr = na
	}
	newArrN := tr.define("(Array "+bv64+" "+es+")", newArr, "app_contents")
	// appending nothing in place writes nothing (in particular append(nil, empty...) touches no array)
	noWrite := and(inPlace, eq(n, bvI(0, 64)))
	if tr.vc.Contract != nil && tr.vc.Contract.Bytes {
		// a declared name (not a macro): quantifier patterns over the new heap must not contain `ite`
		hn := tr.declareConst(C.heapSort[ek], ek)
		tr.raw("(assert (= " + hn + " " + ite(noWrite, E, sto(E, ite(inPlace, app("s.arr", s.T), fresh), newArrN)) + "))")
		fr.heap.m[ek] = hn
	} else {
		fr.heap.m[ek] = tr.define(C.heapSort[ek], ite(noWrite, E, sto(E, ite(inPlace, app("s.arr", s.T), fresh), newArrN)), ek)
	}
	C.assumpt["append: the spare capacity of a reallocated result is modelled with unspecified (not zeroed) contents"] = true
	return Val{T: resN, Ty: rt}
}

// bvShiftLemma: for 0 <= a, b, n, o < 2^48 and a+b <= k < a+b+n: o <= o + (k - (a+b)) < o + n.
// A valid formula of 64-bit two's complement arithmetic (its hypotheses are part of the formula, so
// assuming an instance adds nothing); the solvers need minutes to find it inside a larger goal, so it is
// stated where a bulk copy shifts indices. Proof: /verif/lemmas/bvshift.smt2 (thorough tier).
func bvShiftLemma(C *Ctx, q, a, b, n, o, pat string) string {
	C.assumpt["engine lemma bvshift (index shift of a bulk copy stays inside the source; a theorem of 64-bit arithmetic, /verif/lemmas/bvshift.smt2, re-proved in the thorough tier)"] = true
	small := func(x string) string {
		return and(app("bvsle", bvI(0, 64), x), app("bvslt", x, bvI(1<<48, 64)))
	}
	base := app("bvadd", a, b)
	j := app("bvadd", o, app("bvsub", q, base))
	return fmt.Sprintf("(forall ((%s %s)) (! (=> (and %s %s %s %s (bvsle %s %s) (bvslt %s (bvadd %s %s))) (and (bvsle %s %s) (bvslt %s (bvadd %s %s)))) :pattern (%s)))",
		q, bv64, small(a), small(b), small(n), small(o), base, q, q, base, n, o, j, j, o, n, pat)
}

// constLen: the length of slice value t when it is syntactically a constant (slice of a fixed-size array).
func constLen(t Val, tr *Tr, fr *frame) (int64, bool) {
	if k, ok := tr.sliceConstLen[t.T]; ok {
		return k, true
	}
	return 0, false
}

func (tr *Tr) copyOp(fr *frame, args []Val, pos token.Pos) Val {
	C := tr.C
	d, s := args[0], args[1]
	et := d.Ty.Underlying().(*types.Slice).Elem()
	es := C.sortOf(et)
	ek := C.elemKey(es)
	var sl string
	if isString(s.Ty) {
		sl = app("slen", s.T)
	} else {
		sl = app("s.len", s.T)
	}
	n := tr.define(bv64, ite(app("bvsle", app("s.len", d.T), sl), app("s.len", d.T), sl), "copy_n")
	E := C.hget(fr.heap, ek)
	oldArr := sel(E, app("s.arr", d.T))
	na := tr.declareConst("(Array "+bv64+" "+es+")", "copy_new")
	q := C.fresh("k")
	lo := app("s.off", d.T)
	hi := app("bvadd", lo, n)
	if tr.vc.Contract != nil && tr.vc.Contract.Bytes {
		tr.assume(fr.curReach, fmt.Sprintf("(forall ((%s %s)) (! (=> (or (bvslt %s %s) (bvsge %s %s)) (= (select %s %s) (select %s %s))) :pattern ((select %s %s))))", q, bv64, q, lo, q, hi, na, q, oldArr, q, na, q))
		if !isString(s.Ty) {
			sArr := sel(E, app("s.arr", s.T))
			tr.assume(fr.curReach, fmt.Sprintf("(forall ((%s %s)) (! (=> (and (bvsle %s %s) (bvslt %s %s)) (= (select %s %s) (select %s (bvadd %s (bvsub %s %s))))) :pattern ((select %s %s))))",
				q, bv64, lo, q, q, hi, na, q, sArr, app("s.off", s.T), q, lo, na, q))
			tr.assume(fr.curReach, bvShiftLemma(C, q, lo, bvI(0, 64), n, app("s.off", s.T), fmt.Sprintf("(select %s %s)", na, q)))
		}
		tr.vc.Abstract["copy(quantified)"]++
	} else {
		tr.vc.Abstract["copy(contents havoc)"]++
	}
	fr.heap.m[ek] = tr.define(C.heapSort[ek], ite(eq(app("s.arr", d.T), "0"), E, sto(E, app("s.arr", d.T), na)), ek)
	return Val{T: n, Ty: tInt}
}

// ---------- defers ----------

func (tr *Tr) runDefers(fr *frame) {
	for i := len(fr.defers) - 1; i >= 0; i-- {
		d := fr.defers[i]
		// run the deferred call under its registration guard
		saveReach := fr.curReach
		before := fr.heap.clone()
		guard := d.guard
		fr.curReach = tr.define("Bool", and(saveReach, guard), "defer_reach")
		tr.call(fr, nil, &d.instr.Call, d.instr.Pos())
		if guard != "true" && guard != saveReach {
			// merge: effects only if the defer was registered
			after := fr.heap
			hs := map[*ssa.BasicBlock]*Heap{}
			b1, b2 := &ssa.BasicBlock{Index: -1}, &ssa.BasicBlock{Index: -2}
			hs[b1], hs[b2] = after, before
			tmp := &frame{heapEnd: hs}
			fr.heap = tr.mergeHeaps(tmp, []inEdge{{b1, guard}, {b2, "true"}})
		}
		fr.curReach = saveReach
	}
}

// ---------- loop mod-sets ----------

// loopModSet computes (syntactically) the heap keys that may be written inside the loop.
func (tr *Tr) loopModSet(fr *frame, li *loopInfo) (map[string]bool, bool) {
	mod := map[string]bool{}
	all := false
	var visitFn func(fn *ssa.Function, depth int, seen map[*ssa.Function]bool)
	visitInstr := func(ins ssa.Instruction, depth int, seen map[*ssa.Function]bool) {
		switch x := ins.(type) {
		case *ssa.Store:
			tr.keysOfAddr(x.Addr, mod)
		case *ssa.MapUpdate:
			mt := x.Map.Type().Underlying().(*types.Map)
			d, v, l := tr.C.mapKeys(tr.C.sortOf(mt.Key()), tr.C.sortOf(mt.Elem()))
			mod[d], mod[v], mod[l] = true, true, true
		case *ssa.Alloc:
			mod["ALLOC"] = true
			et := x.Type().Underlying().(*types.Pointer).Elem()
			tr.placeKeys(tr.placeOfPtr("0", et), mod)
		case *ssa.MakeSlice:
			mod["ALLOC"] = true
			mod[tr.C.elemKey(tr.C.sortOf(x.Type().Underlying().(*types.Slice).Elem()))] = true
		case *ssa.MakeMap:
			mod["ALLOC"] = true
			mt := x.Type().Underlying().(*types.Map)
			d, v, l := tr.C.mapKeys(tr.C.sortOf(mt.Key()), tr.C.sortOf(mt.Elem()))
			mod[d], mod[v], mod[l] = true, true, true
		case *ssa.MakeClosure, *ssa.MakeChan:
			mod["ALLOC"] = true
		case *ssa.Convert:
			if isByteSlice(x.Type()) && isString(x.X.Type()) {
				mod["ALLOC"] = true
				mod[tr.C.elemKey("(_ BitVec 8)")] = true
			}
		case ssa.CallInstruction:
			cc := x.Common()
			if _, isGo := ins.(*ssa.Go); isGo {
				return
			}
			if b, ok := cc.Value.(*ssa.Builtin); ok {
				switch b.Name() {
				case "append":
					mod["ALLOC"] = true
					mod[tr.C.elemKey(tr.C.sortOf(cc.Args[0].Type().Underlying().(*types.Slice).Elem()))] = true
				case "copy":
					mod[tr.C.elemKey(tr.C.sortOf(cc.Args[0].Type().Underlying().(*types.Slice).Elem()))] = true
				case "delete":
					mt := cc.Args[0].Type().Underlying().(*types.Map)
					d, v, l := tr.C.mapKeys(tr.C.sortOf(mt.Key()), tr.C.sortOf(mt.Elem()))
					mod[d], mod[v], mod[l] = true, true, true
				case "clear":
					if mt, ok := cc.Args[0].Type().Underlying().(*types.Map); ok {
						d, v, l := tr.C.mapKeys(tr.C.sortOf(mt.Key()), tr.C.sortOf(mt.Elem()))
						mod[d], mod[v], mod[l] = true, true, true
					} else if st, ok := cc.Args[0].Type().Underlying().(*types.Slice); ok {
						mod[tr.C.elemKey(tr.C.sortOf(st.Elem()))] = true
					}
				case "close":
					mod["CHCLOSED"] = true
				}
				return
			}
			if cc.IsInvoke() {
				key := ifaceMethodKey(cc.Value.Type(), cc.Method.Name())
				if c := tr.G.contracts.Funcs[key]; c != nil && c.HasAssigns {
					tr.contractModKeys(c, nil, mod, &all)
					return
				}
				all = true
				return
			}
			callee := cc.StaticCallee()
			if callee == nil {
				if mc, ok := cc.Value.(*ssa.MakeClosure); ok {
					callee = mc.Fn.(*ssa.Function)
				}
			}
			if callee == nil {
				all = true
				return
			}
			name := callee.String()
			if strings.HasSuffix(name, ".verifAssert") || strings.HasSuffix(name, ".verifCanary") {
				return
			}
			if callee.Pkg != nil && callee.Pkg.Pkg.Path() == "sync/atomic" && len(cc.Args) >= 1 {
				switch cc.Args[0].(type) {
				case *ssa.FieldAddr, *ssa.IndexAddr:
					tr.keysOfAddr(cc.Args[0], mod)
					return
				}
			}
			if c := tr.calleeContract(name); c != nil && !c.Inline {
				if !c.HasAssigns {
					all = true
					return
				}
				tr.contractModKeys(c, callee, mod, &all)
				return
			}
			if depth < 4 && !seen[callee] && len(callee.Blocks) > 0 && !hasBackEdge(callee) && (inModule(callee) || (callee.Pkg != nil && inlineStdlib[callee.Pkg.Pkg.Path()]) || callee.Pkg == nil) {
				seen[callee] = true
				visitFn(callee, depth+1, seen)
				return
			}
			touches := inModule(callee)
			for _, a := range cc.Args {
				if carriesRefs(a.Type(), map[types.Type]bool{}) {
					touches = true
				}
			}
			if touches {
				all = true
			}
		}
	}
	visitFn = func(fn *ssa.Function, depth int, seen map[*ssa.Function]bool) {
		for _, b := range fn.Blocks {
			for _, ins := range b.Instrs {
				visitInstr(ins, depth, seen)
			}
		}
	}
	for b := range li.blocks {
		for _, ins := range b.Instrs {
			visitInstr(ins, 0, map[*ssa.Function]bool{})
		}
	}
	return mod, all
}

func (tr *Tr) keysOfAddr(addr ssa.Value, out map[string]bool) {
	switch a := addr.(type) {
	case *ssa.FieldAddr:
		pt := a.X.Type().Underlying().(*types.Pointer).Elem()
		st := pt.Underlying().(*types.Struct)
		tr.placeKeys(tr.fieldPlace("0", pt, st, a.Field), out)
	case *ssa.IndexAddr:
		switch u := a.X.Type().Underlying().(type) {
		case *types.Slice:
			if isAggregate(u.Elem()) {
				tr.placeKeys(tr.placeOfPtr("0", u.Elem()), out)
			} else {
				out[tr.C.elemKey(tr.C.sortOf(u.Elem()))] = true
			}
		case *types.Pointer:
			at := u.Elem().Underlying().(*types.Array)
			out[tr.C.elemKey(tr.C.sortOf(at.Elem()))] = true
		}
	default:
		et := addr.Type().Underlying().(*types.Pointer).Elem()
		tr.placeKeys(tr.placeOfPtr("0", et), out)
	}
}

// contractModKeys: heap keys named by an assigns clause (independent of the concrete references).
func (tr *Tr) contractModKeys(c *Contract, callee *ssa.Function, out map[string]bool, all *bool) {
	out["ALLOC"] = true
	// evaluate targets with dummy parameter values: only the keys matter
	names := map[string]Val{}
	if callee != nil {
		for _, p := range callee.Params {
			names[p.Name()] = Val{T: tr.C.zero(p.Type()), Ty: p.Type()}
		}
		if len(callee.Params) == 0 {
			sig := callee.Signature
			if sig.Recv() != nil {
				names[sig.Recv().Name()] = Val{T: tr.C.zero(sig.Recv().Type()), Ty: sig.Recv().Type()}
			}
			for i := 0; i < sig.Params().Len(); i++ {
				names[sig.Params().At(i).Name()] = Val{T: tr.C.zero(sig.Params().At(i).Type()), Ty: sig.Params().At(i).Type()}
			}
		}
	}
	pkg := tr.G.typesPkg[c.PkgPath]
	if pkg == nil && callee != nil && callee.Pkg != nil {
		pkg = callee.Pkg.Pkg
	}
	h := &Heap{base: newEpoch(), m: map[string]string{}}
	env := &specEnv{tr: tr, pkg: pkg, names: names, heap: h, old: h, oldA: "0", curA: "0"}
	func() {
		defer func() {
			if r := recover(); r != nil {
				if _, ok := r.(vcErr); ok {
					*all = true
					return
				}
				panic(r)
			}
		}()
		tg := tr.assignTargets(nil, c, env)
		for k, t := range tg {
			if k == "*" && t.all {
				*all = true
				continue
			}
			out[k] = true
		}
	}()
}

// Definition side of `calls h`: the function under verification calls its own function parameter h.
// Ghost state (kept across havoc like ghost maps): did h run, and what did it return. The ensures
// clauses of the function see them as ran_h / res_h, exactly the names its callers are promised.
func (tr *Tr) cbKeys(hn string, rt types.Type) (ranK, resK string) {
	ranK, resK = "G_cbran_"+hn, "G_cbres_"+hn
	tr.C.regHeap(ranK, "(Array Int Bool)")
	if tup, ok := rt.(*types.Tuple); ok {
		if tup.Len() != 1 {
			return ranK, ""
		}
		rt = tup.At(0).Type()
	}
	tr.C.regHeap(resK, "(Array Int "+tr.C.sortOf(rt)+")")
	return
}

func (tr *Tr) paramCallback(fr *frame, hn string, args []Val, rt types.Type, pos token.Pos) Val {
	c := fr.contract
	ranK, resK := tr.cbKeys(hn, rt)
	ranOld := sel(tr.C.hget(fr.heap, ranK), "0")
	tr.oblige(fr, "callback", "once:"+hn, "", fr.curReach, not(ranOld), pos, "the function parameter "+hn+" is called at most once")
	for _, nn := range c.CallsNonNil {
		if nn != hn {
			continue
		}
		for _, a := range args {
			if _, isIface := a.Ty.Underlying().(*types.Interface); isIface {
				tr.oblige(fr, "callback", "nonnil:"+hn, "", fr.curReach, not(eq(app("i.typ", a.T), "0")), pos, hn+" is called with a non-nil argument (promised to callers)")
			} else if refLike(a.Ty) {
				tr.oblige(fr, "callback", "nonnil:"+hn, "", fr.curReach, not(eq(a.T, "0")), pos, hn+" is called with a non-nil argument (promised to callers)")
			}
		}
	}
	for _, ca := range c.CallArgs {
		if ca.H != hn || ca.K >= len(args) {
			continue
		}
		env := tr.entryEnv(fr)
		env.heap, env.curA = fr.heap, tr.curA(fr)
		env.names["cbarg"] = args[ca.K]
		t, err := env.evalBool(ca.Cl.S)
		if err != nil {
			vfail("%s: callarg %s %d: %v", fr.fn, hn, ca.K, err)
		}
		tr.oblige(fr, "callback", "arg:"+hn, ca.Cl.Prop, fr.curReach, t, pos, "argument "+fmt.Sprint(ca.K)+" handed to "+hn+" is what callers are promised: "+ca.Cl.Text)
	}
	// h is arbitrary code: it may write any memory it can reach
	ranArr := tr.C.hget(fr.heap, ranK)
	resArr := ""
	if resK != "" {
		resArr = tr.C.hget(fr.heap, resK)
	}
	var r Val
	if spec := c.CallFrame[hn]; spec != "" {
		// assumed frame of the function value (reported as an assumption): havoc only what it may write
		tr.vc.CallSite = append(tr.vc.CallSite, "assumed frame of the function parameter "+hn+" in "+shortFuncName(fr.fn)+": assigns "+spec)
		env := tr.entryEnv(fr)
		env.heap, env.old = fr.heap, fr.heap
		fake := &Contract{Assigns: []string{spec}, HasAssigns: true, PkgPath: c.PkgPath}
		tg := tr.assignTargets(fr, fake, env)
		var ks []string
		for k := range tg {
			ks = append(ks, k)
		}
		sort.Strings(ks)
		for _, k := range ks {
			t := tg[k]
			if k == "*" {
				vfail("calls %s frame: * is the default, leave the frame out", hn)
			}
			if t.all {
				fr.heap.m[k] = tr.declareConst(tr.C.heapSort[k], k+"_cb")
				continue
			}
			cur := tr.C.hget(fr.heap, k)
			for _, rr := range t.refs {
				cur = sto(cur, rr, tr.declareConst(elemSortOfArray(tr.C.heapSort[k]), k+"_at"))
			}
			fr.heap.m[k] = tr.define(tr.C.heapSort[k], cur, k)
		}
		oldA := tr.curA(fr)
		newA := tr.declareConst("Int", "A_call")
		tr.assume("true", app(">=", newA, oldA))
		fr.heap.m["ALLOC"] = newA
		r = tr.freshResult(fr, rt, "ret_"+hn)
	} else {
		r = tr.havocCall(fr, args, rt, true)
	}
	fr.heap.m[ranK] = tr.define("(Array Int Bool)", sto(ranArr, "0", "true"), ranK)
	if resK != "" && r.T != "" {
		fr.heap.m[resK] = tr.define(tr.C.heapSort[resK], sto(resArr, "0", r.T), resK)
	}
	tr.vc.Abstract["call of the function parameter "+hn+" (arbitrary callee; ghost ran_"+hn+"/res_"+hn+")"]++
	return r
}

// callback models "the callee may run its function argument hn once, on arbitrary well-formed
// arguments". With a closure created in the calling function the closure is executed (by its
// contract or inlined) under the fresh condition ran_hn; otherwise everything is havoc'd.
func (tr *Tr) callback(fr *frame, callee *ssa.Function, c *Contract, hn string, args []Val, names map[string]Val, pos token.Pos, cc *ssa.CallCommon) {
	idx := -1
	for i, n := range paramNames(callee, c) {
		if n == hn {
			idx = i
		}
	}
	if idx < 0 || idx >= len(args) {
		vfail("contract of %s: calls %s: no such parameter", c.Key, hn)
	}
	ran := tr.declareConst("Bool", "ran_"+hn)
	names["ran_"+hn] = Val{T: ran, Ty: tBool}
	var ci *closureInfo
	if cc != nil && !cc.IsInvoke() && idx < len(cc.Args) {
		ci = fr.closures[cc.Args[idx]]
	}
	if cc != nil && cc.IsInvoke() && idx >= 1 && idx-1 < len(cc.Args) {
		ci = fr.closures[cc.Args[idx-1]] // interface method call: the receiver is not among the arguments
	}
	sig, ok := args[idx].Ty.Underlying().(*types.Signature)
	if !ok {
		vfail("contract of %s: calls %s: not a function parameter", c.Key, hn)
	}
	var rt types.Type = sig.Results()
	if sig.Results().Len() == 1 {
		rt = sig.Results().At(0).Type()
	}
	if ci == nil {
		// the function under verification forwards its OWN function parameter (which its contract says it
		// `calls`): what the callee does with it counts as this function's call of the parameter
		var fwd string
		if cc != nil && fr.top && fr.contract != nil {
			ai := idx
			if cc.IsInvoke() {
				ai = idx - 1
			}
			if ai >= 0 && ai < len(cc.Args) {
				av := cc.Args[ai]
				if ct, isCT := av.(*ssa.ChangeType); isCT { // func(...) passed as a named function type
					av = ct.X
				}
				if p, ok := av.(*ssa.Parameter); ok {
					for _, mine := range fr.contract.Calls {
						if mine == p.Name() {
							fwd = mine
						}
					}
				}
			}
		}
		if fwd != "" {
			ranK, resK := tr.cbKeys(fwd, sig.Results())
			ranArr := tr.C.hget(fr.heap, ranK)
			resArr := ""
			if resK != "" {
				resArr = tr.C.hget(fr.heap, resK)
			}
			tr.oblige(fr, "callback", "once:"+fwd, "", fr.curReach, not(sel(ranArr, "0")), pos, "the function parameter "+fwd+" is handed on (and possibly called) at most once")
			r := tr.havocCall(fr, nil, rt, true)
			names["res_"+hn] = r
			fr.heap.m[ranK] = tr.define("(Array Int Bool)", sto(ranArr, "0", ran), ranK)
			if resK != "" && r.T != "" {
				fr.heap.m[resK] = tr.define(tr.C.heapSort[resK], sto(resArr, "0", r.T), resK)
			}
			tr.vc.Abstract["function parameter "+fwd+" forwarded to "+c.Key]++
			return
		}
		// unknown function value: it may do anything to the heap it can reach
		tr.vc.Unknown["callback "+hn+" of "+c.Key]++
		r := tr.havocCall(fr, nil, rt, true)
		names["res_"+hn] = r
		return
	}
	saveReach := fr.curReach
	before := fr.heap.clone()
	fr.curReach = tr.define("Bool", and(saveReach, ran, not(eq(args[idx].T, "0"))), "cb_reach")
	var cargs []Val
	for i := 0; i < sig.Params().Len(); i++ {
		v := tr.freshResult(fr, sig.Params().At(i).Type(), "cbarg")
		for _, nn := range c.CallsNonNil {
			if nn == hn {
				if _, isIface := v.Ty.Underlying().(*types.Interface); isIface {
					tr.assume(fr.curReach, not(eq(app("i.typ", v.T), "0")))
				} else if refLike(v.Ty) {
					tr.assume(fr.curReach, not(eq(v.T, "0")))
				}
			}
		}
		cargs = append(cargs, v)
	}
	// callarg h k <spec over cbarg>: what the (assumed) callee guarantees about the k-th argument it
	// passes to h, in the state in which h runs
	for _, ca := range c.CallArgs {
		if ca.H != hn || ca.K >= len(cargs) {
			continue
		}
		pkg := tr.G.typesPkg[c.PkgPath]
		if pkg == nil && callee != nil && callee.Pkg != nil {
			pkg = callee.Pkg.Pkg
		}
		nm := map[string]Val{}
		for k, v := range names {
			nm[k] = v
		}
		nm["cbarg"] = cargs[ca.K]
		env := &specEnv{tr: tr, pkg: pkg, names: nm, heap: fr.heap, old: fr.heap, oldA: tr.curA(fr), curA: tr.curA(fr)}
		t, err := env.evalBool(ca.Cl.S)
		if err != nil {
			vfail("contract of %s: callarg %s %d: %v", c.Key, hn, ca.K, err)
		}
		tr.assume(fr.curReach, t)
		tr.assume(fr.curReach, tr.belowAlloc(cargs[ca.K], tr.curA(fr)))
	}
	tr.inCallback++
	r := tr.staticCall(fr, ci.fn, cargs, ci.bindings, rt, pos, nil)
	tr.inCallback--
	after := fr.heap
	hs := map[*ssa.BasicBlock]*Heap{}
	b1, b2 := &ssa.BasicBlock{Index: -1}, &ssa.BasicBlock{Index: -2}
	hs[b1], hs[b2] = after, before
	tmp := &frame{heapEnd: hs}
	fr.heap = tr.mergeHeaps(tmp, []inEdge{{b1, and(ran, not(eq(args[idx].T, "0")))}, {b2, "true"}})
	fr.curReach = saveReach
	names["res_"+hn] = r
}
