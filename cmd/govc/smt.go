package main

// SMT context: sorts, lazily declared symbols, heap keys, term helpers.

import (
	"fmt"
	"go/types"
	"math/big"
	"regexp"
	"sort"
	"strings"
)

const bv64 = "(_ BitVec 64)"

// Ctx collects everything that must be declared in the preamble of a script.
type Ctx struct {
	decls     []string          // in order of registration
	declared  map[string]bool   // symbol name -> done
	structSrt map[string]string // canonical struct key -> sort name
	typeIDs   map[string]int
	typeByID  map[int]types.Type
	strConsts map[string]string
	strOrder  []string
	heapSort  map[string]string // heap key -> sort of the array
	nameCtr   int
	assumpt   map[string]bool // modelling assumptions actually used (reported)
	globals   []string
	addrTags  int
	addrTag   map[string]int
}

func newCtx() *Ctx {
	c := &Ctx{declared: map[string]bool{}, structSrt: map[string]string{}, typeIDs: map[string]int{},
		typeByID: map[int]types.Type{}, strConsts: map[string]string{}, heapSort: map[string]string{}, assumpt: map[string]bool{}, addrTag: map[string]int{}}
	c.decls = append(c.decls,
		"(declare-sort Str 0)",
		"(declare-fun slen (Str) "+bv64+")",
		"(declare-fun sat (Str "+bv64+") (_ BitVec 8))",
		"(declare-fun sconcat (Str Str) Str)",
		"(declare-datatypes ((Slice 0)) (((mkslice (s.arr Int) (s.off "+bv64+") (s.len "+bv64+") (s.cap "+bv64+")))))",
		"(declare-datatypes ((Iface 0)) (((mkiface (i.typ Int) (i.val Int)))))",
	)
	return c
}

func (c *Ctx) fresh(prefix string) string {
	c.nameCtr++
	return fmt.Sprintf("%s!%d", prefix, c.nameCtr)
}

func (c *Ctx) declare(name, decl string) {
	if c.declared[name] {
		return
	}
	c.declared[name] = true
	c.decls = append(c.decls, decl)
}

func mangle(s string) string {
	var b strings.Builder
	for _, r := range s {
		switch {
		case r >= 'a' && r <= 'z', r >= 'A' && r <= 'Z', r >= '0' && r <= '9', r == '_':
			b.WriteRune(r)
		case r == '.' || r == '/':
			b.WriteRune('.')
		case r == '*':
			b.WriteString("ptr.")
		default:
			b.WriteRune('_')
		}
	}
	return b.String()
}

func shortTypeName(t types.Type) string {
	return types.TypeString(t, func(p *types.Package) string { return p.Name() })
}

// ---- sorts ----

func isInt(t types.Type) bool {
	b, ok := t.Underlying().(*types.Basic)
	return ok && b.Info()&types.IsInteger != 0
}
func isUnsigned(t types.Type) bool {
	b, ok := t.Underlying().(*types.Basic)
	return ok && b.Info()&types.IsUnsigned != 0
}
func isFloat(t types.Type) bool {
	b, ok := t.Underlying().(*types.Basic)
	return ok && b.Info()&types.IsFloat != 0
}
func isString(t types.Type) bool {
	b, ok := t.Underlying().(*types.Basic)
	return ok && b.Info()&types.IsString != 0
}
func isBool(t types.Type) bool {
	b, ok := t.Underlying().(*types.Basic)
	return ok && b.Info()&types.IsBoolean != 0
}

func intWidth(t types.Type) int {
	b, ok := t.Underlying().(*types.Basic)
	if !ok {
		return 64
	}
	switch b.Kind() {
	case types.Int8, types.Uint8:
		return 8
	case types.Int16, types.Uint16:
		return 16
	case types.Int32, types.Uint32, types.Float32:
		return 32
	}
	return 64
}

func bvSort(w int) string { return fmt.Sprintf("(_ BitVec %d)", w) }

// refLike: represented by an Int reference.
func refLike(t types.Type) bool {
	switch u := t.Underlying().(type) {
	case *types.Pointer, *types.Map, *types.Chan, *types.Signature:
		return true
	case *types.Basic:
		return u.Kind() == types.UnsafePointer || u.Kind() == types.UntypedNil
	}
	return false
}

func (c *Ctx) sortOf(t types.Type) string {
	switch u := t.Underlying().(type) {
	case *types.Basic:
		switch {
		case u.Info()&types.IsBoolean != 0:
			return "Bool"
		case u.Info()&types.IsInteger != 0:
			return bvSort(intWidth(t))
		case u.Info()&types.IsFloat != 0:
			return bvSort(intWidth(t))
		case u.Info()&types.IsString != 0:
			return "Str"
		case u.Info()&types.IsComplex != 0:
			return "Int"
		}
		return "Int"
	case *types.Pointer:
		// a sort alias of Int per pointer type: it is Int to the solver, but heap arrays (cells, slice
		// elements, map values) are named after the sort, so []*A and []*B get separate arrays. Go's type
		// system guarantees that they never share memory (unsafe is outside the subset).
		n := "R." + mangle(shortTypeName(t))
		if !c.declared["sort:"+n] {
			c.declared["sort:"+n] = true
			c.decls = append(c.decls, "(define-sort "+n+" () Int)")
		}
		return n
	case *types.Map, *types.Chan, *types.Signature:
		return "Int"
	case *types.Slice:
		return "Slice"
	case *types.Interface:
		return "Iface"
	case *types.Struct:
		return c.structSort(t, u)
	case *types.Array:
		return "(Array " + bv64 + " " + c.sortOf(u.Elem()) + ")"
	case *types.Tuple:
		return "Int"
	}
	return "Int"
}

func structKey(t types.Type, u *types.Struct) string {
	if n, ok := t.(*types.Named); ok {
		return shortTypeName(n)
	}
	if a, ok := t.(*types.Alias); ok {
		return structKey(types.Unalias(a), u)
	}
	return "anon_" + mangle(u.String())
}

func (c *Ctx) structSort(t types.Type, u *types.Struct) string {
	key := structKey(t, u)
	if s, ok := c.structSrt[key]; ok {
		return s
	}
	name := "S_" + mangle(key)
	c.structSrt[key] = name
	if u.NumFields() == 0 {
		c.decls = append(c.decls, fmt.Sprintf("(declare-datatypes ((%s 0)) (((mk_%s))))", name, name))
		return name
	}
	var fs []string
	for i := 0; i < u.NumFields(); i++ {
		fs = append(fs, fmt.Sprintf("(%s.%s %s)", name, fieldName(u, i), c.sortOf(u.Field(i).Type())))
	}
	c.decls = append(c.decls, fmt.Sprintf("(declare-datatypes ((%s 0)) (((mk_%s %s))))", name, name, strings.Join(fs, " ")))
	return name
}

func fieldName(u *types.Struct, i int) string {
	n := u.Field(i).Name()
	if n == "_" {
		return fmt.Sprintf("blank%d", i)
	}
	return n
}

func sortTag(s string) string {
	switch s {
	case "Bool":
		return "bool"
	case "Int":
		return "ref"
	case "Str":
		return "str"
	case "Slice":
		return "slice"
	case "Iface":
		return "iface"
	}
	if strings.HasPrefix(s, "(_ BitVec ") {
		return "bv" + strings.TrimSuffix(strings.TrimPrefix(s, "(_ BitVec "), ")")
	}
	if strings.HasPrefix(s, "(Array ") {
		return "arr_" + mangle(s)
	}
	return s
}

// zero value term of a type.
func (c *Ctx) zero(t types.Type) string {
	switch u := t.Underlying().(type) {
	case *types.Basic:
		switch {
		case u.Info()&types.IsBoolean != 0:
			return "false"
		case u.Info()&(types.IsInteger|types.IsFloat) != 0:
			return bvLit(big.NewInt(0), intWidth(t))
		case u.Info()&types.IsString != 0:
			return c.strConst("")
		}
		return "0"
	case *types.Slice:
		return "(mkslice 0 " + bvLit(big.NewInt(0), 64) + " " + bvLit(big.NewInt(0), 64) + " " + bvLit(big.NewInt(0), 64) + ")"
	case *types.Interface:
		return "(mkiface 0 0)"
	case *types.Struct:
		s := c.structSort(t, u)
		if u.NumFields() == 0 {
			return "mk_" + s
		}
		var fs []string
		for i := 0; i < u.NumFields(); i++ {
			fs = append(fs, c.zero(u.Field(i).Type()))
		}
		return "(mk_" + s + " " + strings.Join(fs, " ") + ")"
	case *types.Array:
		return "((as const " + c.sortOf(t) + ") " + c.zero(u.Elem()) + ")"
	}
	return "0"
}

func bvLit(v *big.Int, w int) string {
	m := new(big.Int).Lsh(big.NewInt(1), uint(w))
	x := new(big.Int).Mod(v, m)
	return fmt.Sprintf("(_ bv%s %d)", x.String(), w)
}
func bvI(v int64, w int) string { return bvLit(big.NewInt(v), w) }

func (c *Ctx) strConst(s string) string {
	if n, ok := c.strConsts[s]; ok {
		return n
	}
	n := fmt.Sprintf("strlit%d", len(c.strConsts))
	c.strConsts[s] = n
	c.strOrder = append(c.strOrder, s)
	return n
}

// declarations + axioms for string literals (emitted after all are known)
func (c *Ctx) strDecls() []string {
	var out []string
	var names []string
	for _, s := range c.strOrder {
		n := c.strConsts[s]
		names = append(names, n)
		out = append(out, fmt.Sprintf("(declare-const %s Str)", n))
		out = append(out, fmt.Sprintf("(assert (= (slen %s) %s))", n, bvI(int64(len(s)), 64)))
		if len(s) <= 64 {
			for i := 0; i < len(s); i++ {
				out = append(out, fmt.Sprintf("(assert (= (sat %s %s) %s))", n, bvI(int64(i), 64), bvI(int64(s[i]), 8)))
			}
		}
	}
	if len(names) > 1 {
		out = append(out, "(assert (distinct "+strings.Join(names, " ")+"))")
	}
	return out
}

// ---- dynamic type ids ----

var aliasWordRe = regexp.MustCompile(`\b(byte|rune)\b`)

func (c *Ctx) typeID(t types.Type) int {
	// byte/uint8 and rune/int32 are identical types with different spellings
	k := aliasWordRe.ReplaceAllStringFunc(types.TypeString(types.Unalias(t), nil), func(w string) string {
		if w == "byte" {
			return "uint8"
		}
		return "int32"
	})
	if id, ok := c.typeIDs[k]; ok {
		return id
	}
	id := len(c.typeIDs) + 1
	c.typeIDs[k] = id
	c.typeByID[id] = t
	return id
}

// box/unbox for non-reference dynamic values stored in interfaces
func (c *Ctx) boxFn(sort string) (string, string) {
	tag := sortTag(sort)
	b, u := "box_"+tag, "unbox_"+tag
	c.declare(b, fmt.Sprintf("(declare-fun %s (%s) Int)", b, sort))
	c.declare(u, fmt.Sprintf("(declare-fun %s (Int) %s)", u, sort))
	return b, u
}

// address of a nested (by-value) struct or array field inside an object
func (c *Ctx) addrFn(structKey, field string) string {
	n := "addr_" + mangle(structKey) + "_" + field
	if !c.declared[n] {
		// addresses of by-value members: never nil, injective, distinct per member, and disjoint from
		// allocated references (they live in the negative integers)
		c.declare("addrtag", "(declare-fun addrtag (Int) Int)")
		c.addrTags++
		c.addrTag[n] = c.addrTags
		c.declare(n, fmt.Sprintf("(declare-fun %s (Int) Int)\n(declare-fun %s!inv (Int) Int)", n, n))
	}
	return n
}

// ---- heap ----

// Heap is a functional map from heap key to the SMT term of the current array.
// Keys not present resolve to the base constant of the heap's epoch.
type Heap struct {
	base      int
	ghostBase int // epoch whose base constants ghost maps (G_*) still refer to (0: same as base)
	m         map[string]string
}

func (h *Heap) clone() *Heap {
	n := &Heap{base: h.base, ghostBase: h.ghostBase, m: make(map[string]string, len(h.m))}
	for k, v := range h.m {
		n.m[k] = v
	}
	return n
}

// havocAll: a heap about which nothing is known (new epoch), except declared ghost maps (G_*):
// ghost state is written only through contracts, never by unknown code.
func (h *Heap) havocAll() *Heap {
	n := &Heap{base: newEpoch(), m: map[string]string{}}
	if h != nil {
		for k, v := range h.m {
			if strings.HasPrefix(k, "G_") {
				n.m[k] = v
			}
		}
		n.ghostBase = h.ghostBase
		if n.ghostBase == 0 {
			n.ghostBase = h.base
		}
	}
	return n
}

var epochCtr int

func newEpoch() int { epochCtr++; return epochCtr }

func (c *Ctx) heapBase(key string, epoch int) string {
	srt, ok := c.heapSort[key]
	if !ok {
		panic("heap key without sort: " + key)
	}
	n := fmt.Sprintf("H%d_%s", epoch, key)
	c.declare(n, fmt.Sprintf("(declare-const %s %s)", n, srt))
	return n
}

func (c *Ctx) regHeap(key, sort string) {
	if _, ok := c.heapSort[key]; !ok {
		c.heapSort[key] = sort
	}
}

func (c *Ctx) hget(h *Heap, key string) string {
	if v, ok := h.m[key]; ok {
		return v
	}
	if h.ghostBase != 0 && strings.HasPrefix(key, "G_") {
		return c.heapBase(key, h.ghostBase)
	}
	return c.heapBase(key, h.base)
}

// heap key constructors
func (c *Ctx) fieldKey(t types.Type, u *types.Struct, i int) string {
	k := "F_" + mangle(structKey(t, u)) + "_" + fieldName(u, i)
	c.regHeap(k, "(Array Int "+c.sortOf(u.Field(i).Type())+")")
	return k
}
func (c *Ctx) cellKey(sort string) string {
	k := "P_" + sortTag(sort)
	c.regHeap(k, "(Array Int "+sort+")")
	return k
}
func (c *Ctx) elemKey(sort string) string {
	k := "E_" + sortTag(sort)
	c.regHeap(k, "(Array Int (Array "+bv64+" "+sort+"))")
	return k
}
func (c *Ctx) mapKeys(ks, vs string) (dom, val, ln string) {
	tag := sortTag(ks) + "_" + sortTag(vs)
	dom, val, ln = "MD_"+tag, "MV_"+tag, "ML"
	c.regHeap(dom, "(Array Int (Array "+ks+" Bool))")
	c.regHeap(val, "(Array Int (Array "+ks+" "+vs+"))")
	c.regHeap(ln, "(Array Int "+bv64+")")
	return
}
func (c *Ctx) allocKey() string { c.regHeap("ALLOC", "Int"); return "ALLOC" }
func (c *Ctx) heldKey() string  { c.regHeap("HELD", "(Array Int Bool)"); return "HELD" }
func (c *Ctx) relKey() string   { c.regHeap("REL", "(Array Int "+bv64+")"); return "REL" }

func (c *Ctx) sortedHeapKeys() []string {
	var ks []string
	for k := range c.heapSort {
		ks = append(ks, k)
	}
	sort.Strings(ks)
	return ks
}

// ---- small term builders ----

func and(xs ...string) string {
	var ys []string
	for _, x := range xs {
		if x == "true" || x == "" {
			continue
		}
		if x == "false" {
			return "false"
		}
		ys = append(ys, x)
	}
	switch len(ys) {
	case 0:
		return "true"
	case 1:
		return ys[0]
	}
	return "(and " + strings.Join(ys, " ") + ")"
}
func or(xs ...string) string {
	var ys []string
	for _, x := range xs {
		if x == "false" || x == "" {
			continue
		}
		if x == "true" {
			return "true"
		}
		ys = append(ys, x)
	}
	switch len(ys) {
	case 0:
		return "false"
	case 1:
		return ys[0]
	}
	return "(or " + strings.Join(ys, " ") + ")"
}
func not(x string) string {
	if x == "true" {
		return "false"
	}
	if x == "false" {
		return "true"
	}
	return "(not " + x + ")"
}
func implies(a, b string) string {
	if a == "true" {
		return b
	}
	if b == "true" {
		return "true"
	}
	return "(=> " + a + " " + b + ")"
}
func ite(c, a, b string) string {
	if c == "true" {
		return a
	}
	if c == "false" {
		return b
	}
	if a == b {
		return a
	}
	return "(ite " + c + " " + a + " " + b + ")"
}
func eq(a, b string) string             { return "(= " + a + " " + b + ")" }
// storeDefs remembers, for store terms (and the names defined for them), the index and the stored
// value, so that select-of-store at the same index is simplified when the term is built. Quantifier
// patterns then mention the stored value itself rather than an unsimplified (select (store ..)).
var storeDefs = map[string][2]string{}

func sel(a, i string) string {
	if d, ok := storeDefs[a]; ok && d[0] == i {
		return d[1]
	}
	return "(select " + a + " " + i + ")"
}

func sto(a, i, v string) string {
	t := "(store " + a + " " + i + " " + v + ")"
	storeDefs[t] = [2]string{i, v}
	return t
}
func app(f string, xs ...string) string { return "(" + f + " " + strings.Join(xs, " ") + ")" }
