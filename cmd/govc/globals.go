package main

// Package-level variables that the module only initialises with a constant and never assigns again are
// read as that constant (closed-world scan over the stores of the loaded program). The OPC UA status
// codes are such variables. Reported as an assumption: code outside the module could assign them.

import (
	"go/types"
	"sync"

	"golang.org/x/tools/go/ssa"
)

var constGlobalsOnce sync.Once

func (g *Global) scanGlobals() {
	g.constGlobals = map[*ssa.Global]*ssa.Const{}
	g.nonNilGlobals = map[*ssa.Global]bool{}
	bad := map[*ssa.Global]bool{}
	for _, fn := range g.fnByName {
		for _, b := range fn.Blocks {
			for _, ins := range b.Instrs {
				st, ok := ins.(*ssa.Store)
				if !ok {
					// the address of the global escaping (passed, stored, captured) disqualifies it as well
					for _, op := range ins.Operands(nil) {
						if gv, ok := (*op).(*ssa.Global); ok {
							if u, isLoad := ins.(*ssa.UnOp); isLoad && u.X == gv {
								continue
							}
							bad[gv] = true
						}
					}
					continue
				}
				if gv, ok := st.Val.(*ssa.Global); ok {
					bad[gv] = true
				}
				gv, ok := st.Addr.(*ssa.Global)
				if !ok {
					continue
				}
				if _, isAlloc := st.Val.(*ssa.Alloc); isAlloc && fn.Name() == "init" && fn.Pkg == gv.Pkg {
					// initialised with the address of a composite literal (a second store disqualifies it)
					if g.nonNilGlobals[gv] {
						bad[gv] = true
					}
					g.nonNilGlobals[gv] = true
					continue
				}
				c, isConst := st.Val.(*ssa.Const)
				if isConst && fn.Name() == "init" && fn.Pkg == gv.Pkg {
					if _, dup := g.constGlobals[gv]; dup {
						bad[gv] = true
					}
					g.constGlobals[gv] = c
				} else {
					bad[gv] = true
				}
			}
		}
	}
	for gv := range bad {
		delete(g.constGlobals, gv)
		delete(g.nonNilGlobals, gv)
	}
}

// nonNilGlobal: a package-level pointer variable that the loaded program only initialises with the
// address of a composite literal and never assigns again (same closed-world assumption as above).
func (g *Global) nonNilGlobal(gv *ssa.Global) bool {
	constGlobalsOnce.Do(g.scanGlobals)
	if g.nonNilGlobals[gv] {
		g.nonNilGlobalUsed = true
		return true
	}
	return false
}

func (g *Global) constGlobal(gv *ssa.Global) *ssa.Const {
	constGlobalsOnce.Do(g.scanGlobals)
	c := g.constGlobals[gv]
	if c != nil {
		g.constGlobalUsed = true
	}
	return c
}

func (g *Global) globalOf(o types.Object) *ssa.Global {
	v, ok := o.(*types.Var)
	if !ok || v.Pkg() == nil {
		return nil
	}
	p := g.prog.Package(v.Pkg())
	if p == nil {
		return nil
	}
	gv, _ := p.Members[v.Name()].(*ssa.Global)
	return gv
}
