package main

// Evaluation of contract expressions to SMT terms, typed with go/types.

import (
	"fmt"
	"go/ast"
	"go/constant"
	"go/token"
	"go/types"
	"math"
	"math/big"
	"strconv"
	"strings"
)

// Val is an SMT term with its Go type. Untyped integer constants carry K.
type Val struct {
	T     string
	Ty    types.Type
	K     *big.Int // untyped integer constant
	Nil   bool     // untyped nil
	Tuple []Val
	Obj   bool // T is the address of a by-value struct/array living in the heap (auto-deref lvalue)
	Cell  bool // T is the address of an address-taken local variable: the name denotes its current content
}

type specEnv struct {
	tr       *Tr
	pkg      *types.Package // package whose scope resolves identifiers
	names    map[string]Val
	oldNames map[string]Val // names as seen by old(...) (entry values); nil = same as names
	heap     *Heap
	old      *Heap
	oldA     string // alloc counter at entry (for fresh)
	curA     string
	results  []Val
	resName  []string
	depth    int
	inTrigger bool
}

func (e *specEnv) with(names map[string]Val) *specEnv {
	n := *e
	n.names = map[string]Val{}
	for k, v := range e.names {
		n.names[k] = v
	}
	for k, v := range names {
		n.names[k] = v
	}
	return &n
}

type specErr struct{ msg string }

func (s specErr) Error() string { return s.msg }

func sfail(format string, a ...interface{}) { panic(specErr{fmt.Sprintf(format, a...)}) }

// evalBool evaluates a spec to a Bool term; errors are returned.
func (e *specEnv) evalBool(s Spec) (t string, err error) {
	defer func() {
		if r := recover(); r != nil {
			if se, ok := r.(specErr); ok {
				err = se
				return
			}
			panic(r)
		}
	}()
	v := e.eval(s)
	if !isBool(v.Ty) {
		sfail("expression is not boolean (type %v)", v.Ty)
	}
	return v.T, nil
}

func (e *specEnv) evalVal(s Spec) (v Val, err error) {
	defer func() {
		if r := recover(); r != nil {
			if se, ok := r.(specErr); ok {
				err = se
				return
			}
			panic(r)
		}
	}()
	return e.eval(s), nil
}

var tBool = types.Typ[types.Bool]
var tInt = types.Typ[types.Int]

func (e *specEnv) eval(s Spec) Val {
	switch s := s.(type) {
	case *SImplies:
		a, b := e.eval(s.A), e.eval(s.B)
		return Val{T: implies(a.T, b.T), Ty: tBool}
	case *SQuant:
		names := map[string]Val{}
		var binders []string
		var guards []string
		for _, v := range s.Vars {
			ty := e.resolveType(v.Type)
			n := e.tr.C.fresh("q_" + v.Name)
			names[v.Name] = Val{T: n, Ty: ty}
			binders = append(binders, "("+n+" "+e.tr.C.sortOf(ty)+")")
			_ = guards
		}
		inner := e.with(names)
		if e.oldNames != nil { // bound variables are visible inside old(...) as well
			on := map[string]Val{}
			for k, v := range e.oldNames {
				on[k] = v
			}
			for k, v := range names {
				on[k] = v
			}
			inner.oldNames = on
		}
		body := inner.eval(s.Body)
		q := "forall"
		if !s.Forall {
			q = "exists"
		}
		bt := body.T
		if len(s.Trig) > 0 {
			var ps []string
			inner.inTrigger = true
			for _, t := range s.Trig {
				tv := inner.eval(t)
				if tv.K != nil {
					tv = inner.coerce(tv, tInt)
				}
				ps = append(ps, tv.T)
			}
			bt = "(! " + bt + " :pattern (" + strings.Join(ps, " ") + "))"
		}
		return Val{T: "(" + q + " (" + strings.Join(binders, " ") + ") " + bt + ")", Ty: tBool}
	case *SGo:
		return e.expr(s.E, s)
	}
	sfail("bad spec node %T", s)
	return Val{}
}

func (e *specEnv) resolveType(s string) types.Type {
	x, err := parseTypeExpr(s)
	if err != nil {
		sfail("bad type %q: %v", s, err)
	}
	return e.typeOfExpr(x)
}

func (e *specEnv) typeOfExpr(x ast.Expr) types.Type {
	switch x := x.(type) {
	case *ast.Ident:
		if t, ok := e.tr.typeVars[x.Name]; ok {
			return t
		}
		if o := e.lookupObj(x.Name); o != nil {
			if tn, ok := o.(*types.TypeName); ok {
				return tn.Type()
			}
		}
		sfail("unknown type %s", x.Name)
	case *ast.StarExpr:
		return types.NewPointer(e.typeOfExpr(x.X))
	case *ast.ArrayType:
		if x.Len == nil {
			return types.NewSlice(e.typeOfExpr(x.Elt))
		}
		if bl, ok := x.Len.(*ast.BasicLit); ok {
			n, _ := strconv.ParseInt(bl.Value, 0, 64)
			return types.NewArray(e.typeOfExpr(x.Elt), n)
		}
	case *ast.SelectorExpr:
		if id, ok := x.X.(*ast.Ident); ok {
			if id.Name == "unsafe" && x.Sel.Name == "Pointer" {
				return types.Typ[types.UnsafePointer]
			}
			if p := e.importedPkg(id.Name); p != nil {
				if o := p.Scope().Lookup(x.Sel.Name); o != nil {
					if tn, ok := o.(*types.TypeName); ok {
						return tn.Type()
					}
				}
			}
		}
	case *ast.MapType:
		return types.NewMap(e.typeOfExpr(x.Key), e.typeOfExpr(x.Value))
	case *ast.ParenExpr:
		return e.typeOfExpr(x.X)
	case *ast.ChanType:
		dir := types.SendRecv
		switch x.Dir {
		case ast.SEND:
			dir = types.SendOnly
		case ast.RECV:
			dir = types.RecvOnly
		}
		return types.NewChan(dir, e.typeOfExpr(x.Value))
	case *ast.InterfaceType:
		return types.NewInterfaceType(nil, nil)
	}
	sfail("unsupported type expression")
	return nil
}

func (e *specEnv) lookupObj(name string) types.Object {
	if e.pkg != nil {
		if o := e.pkg.Scope().Lookup(name); o != nil {
			return o
		}
	}
	return types.Universe.Lookup(name)
}

func (e *specEnv) importedPkg(name string) *types.Package {
	if e.pkg == nil {
		return nil
	}
	for _, p := range e.pkg.Imports() {
		if p.Name() == name {
			return p
		}
	}
	// fall back: any loaded package with that name
	if p, ok := e.tr.G.pkgByName[name]; ok {
		return p
	}
	return nil
}

func (e *specEnv) isTypeExpr(x ast.Expr) (types.Type, bool) {
	switch x := x.(type) {
	case *ast.Ident:
		if _, shadow := e.names[x.Name]; shadow {
			return nil, false
		}
		if t, ok := e.tr.typeVars[x.Name]; ok {
			return t, true
		}
		if o := e.lookupObj(x.Name); o != nil {
			if tn, ok := o.(*types.TypeName); ok {
				return tn.Type(), true
			}
		}
	case *ast.SelectorExpr:
		if id, ok := x.X.(*ast.Ident); ok {
			if _, shadow := e.names[id.Name]; shadow {
				return nil, false
			}
			if p := e.importedPkg(id.Name); p != nil {
				if o := p.Scope().Lookup(x.Sel.Name); o != nil {
					if tn, ok := o.(*types.TypeName); ok {
						return tn.Type(), true
					}
				}
			}
		}
	case *ast.ParenExpr:
		return e.isTypeExpr(x.X)
	case *ast.StarExpr:
		if t, ok := e.isTypeExpr(x.X); ok {
			return types.NewPointer(t), true
		}
	case *ast.ArrayType:
		if x.Len == nil {
			if t, ok := e.isTypeExpr(x.Elt); ok {
				return types.NewSlice(t), true
			}
		}
	}
	return nil, false
}

func (e *specEnv) constVal(c *types.Const) Val {
	v := c.Val()
	t := c.Type()
	if b, ok := t.Underlying().(*types.Basic); ok {
		switch {
		case b.Info()&types.IsUntyped != 0 && v.Kind() == constant.Int:
			bi, _ := new(big.Int).SetString(v.ExactString(), 10)
			return Val{K: bi, Ty: types.Typ[types.UntypedInt]}
		case b.Info()&types.IsInteger != 0:
			iv := constant.ToInt(v)
			bi, _ := new(big.Int).SetString(iv.ExactString(), 10)
			return Val{T: bvLit(bi, intWidth(t)), Ty: t}
		case b.Info()&types.IsBoolean != 0:
			return Val{T: strconv.FormatBool(constant.BoolVal(v)), Ty: t}
		case b.Info()&types.IsString != 0:
			return Val{T: e.tr.C.strConst(constant.StringVal(v)), Ty: t}
		}
	}
	sfail("unsupported constant %s", c.Name())
	return Val{}
}

// coerce an untyped constant to type t
func (e *specEnv) coerce(v Val, t types.Type) Val {
	if v.K != nil {
		if isInt(t) {
			return Val{T: bvLit(v.K, intWidth(t)), Ty: t}
		}
		if refLike(t) {
			return Val{T: v.K.String(), Ty: t} // arr(s) == 0: identity of the nil backing array
		}
		sfail("cannot use integer constant as %v", t)
	}
	if v.Nil {
		return Val{T: e.tr.C.zero(t), Ty: t}
	}
	return v
}

func (e *specEnv) unify(a, b Val) (Val, Val) {
	if a.K != nil && b.K == nil && !b.Nil {
		return e.coerce(a, b.Ty), b
	}
	if b.K != nil && a.K == nil && !a.Nil {
		return a, e.coerce(b, a.Ty)
	}
	if a.Nil && !b.Nil {
		return e.coerce(a, b.Ty), b
	}
	if b.Nil && !a.Nil {
		return a, e.coerce(b, a.Ty)
	}
	return a, b
}

func (e *specEnv) expr(x ast.Expr, sg *SGo) Val {
	tr := e.tr
	switch x := x.(type) {
	case *ast.ParenExpr:
		return e.expr(x.X, sg)
	case *ast.BasicLit:
		switch x.Kind {
		case token.INT:
			bi, ok := new(big.Int).SetString(x.Value, 0)
			if !ok {
				sfail("bad int literal %s", x.Value)
			}
			return Val{K: bi, Ty: types.Typ[types.UntypedInt]}
		case token.CHAR:
			r, _, _, err := strconv.UnquoteChar(x.Value[1:len(x.Value)-1], '\'')
			if err != nil {
				sfail("bad char literal")
			}
			return Val{K: big.NewInt(int64(r)), Ty: types.Typ[types.UntypedInt]}
		case token.STRING:
			s, err := strconv.Unquote(x.Value)
			if err != nil {
				sfail("bad string literal")
			}
			return Val{T: tr.C.strConst(s), Ty: types.Typ[types.String]}
		case token.FLOAT:
			f, err := strconv.ParseFloat(x.Value, 64)
			if err != nil {
				sfail("bad float literal %s", x.Value)
			}
			return Val{T: bvLit(bigFromU(math.Float64bits(f)), 64), Ty: types.Typ[types.Float64]}
		}
		sfail("unsupported literal %s", x.Value)
	case *ast.Ident:
		if sub, ok := sg.Subs[x.Name]; ok {
			return e.eval(sub)
		}
		if v, ok := e.names[x.Name]; ok {
			if v.Cell {
				pt := v.Ty.Underlying().(*types.Pointer)
				return tr.loadPlace(tr.placeOfPtr(v.T, pt.Elem()), e.heap)
			}
			return v
		}
		switch x.Name {
		case "true", "false":
			return Val{T: x.Name, Ty: tBool}
		case "nil":
			return Val{Nil: true, Ty: types.Typ[types.UntypedNil]}
		case "result":
			if len(e.results) == 0 {
				sfail("no result here")
			}
			return e.results[0]
		}
		if strings.HasPrefix(x.Name, "result") {
			if n, err := strconv.Atoi(x.Name[6:]); err == nil && n < len(e.results) {
				return e.results[n]
			}
		}
		for i, n := range e.resName {
			if n == x.Name && i < len(e.results) {
				return e.results[i]
			}
		}
		if o := e.lookupObj(x.Name); o != nil {
			return e.objVal(o)
		}
		sfail("unknown identifier %s", x.Name)
	case *ast.SelectorExpr:
		if id, ok := x.X.(*ast.Ident); ok {
			if _, shadow := e.names[id.Name]; !shadow {
				if p := e.importedPkg(id.Name); p != nil && e.lookupObj(id.Name) == nil {
					o := p.Scope().Lookup(x.Sel.Name)
					if o == nil {
						sfail("unknown %s.%s", id.Name, x.Sel.Name)
					}
					return e.objVal(o)
				}
			}
		}
		base := e.expr(x.X, sg)
		return e.selectField(base, x.Sel.Name)
	case *ast.StarExpr:
		p := e.expr(x.X, sg)
		pt, ok := p.Ty.Underlying().(*types.Pointer)
		if !ok {
			sfail("dereference of non-pointer")
		}
		pl := tr.placeOfPtr(p.T, pt.Elem())
		return tr.loadPlace(pl, e.heap)
	case *ast.UnaryExpr:
		if x.Op == token.AND {
			// &x.f : address of a field
			if se, ok := x.X.(*ast.SelectorExpr); ok {
				base := e.expr(se.X, sg)
				return e.fieldAddr(base, se.Sel.Name)
			}
			sfail("unsupported address-of")
		}
		v := e.expr(x.X, sg)
		switch x.Op {
		case token.NOT:
			return Val{T: not(v.T), Ty: tBool}
		case token.SUB:
			if v.K != nil {
				return Val{K: new(big.Int).Neg(v.K), Ty: v.Ty}
			}
			return Val{T: app("bvneg", v.T), Ty: v.Ty}
		case token.XOR:
			return Val{T: app("bvnot", v.T), Ty: v.Ty}
		}
		sfail("unsupported unary %v", x.Op)
	case *ast.BinaryExpr:
		a, b := e.expr(x.X, sg), e.expr(x.Y, sg)
		return e.binary(x.Op, a, b)
	case *ast.IndexExpr:
		base := e.expr(x.X, sg)
		idx := e.expr(x.Index, sg)
		return e.index(base, idx)
	case *ast.SliceExpr:
		base := e.expr(x.X, sg)
		if _, ok := base.Ty.Underlying().(*types.Slice); !ok {
			sfail("slice expression on non-slice")
		}
		lo := bvI(0, 64)
		hi := app("s.len", base.T)
		if x.Low != nil {
			lo = e.coerce(e.expr(x.Low, sg), tInt).T
		}
		if x.High != nil {
			hi = e.coerce(e.expr(x.High, sg), tInt).T
		}
		return Val{T: app("mkslice", app("s.arr", base.T), app("bvadd", app("s.off", base.T), lo), app("bvsub", hi, lo), app("bvsub", app("s.cap", base.T), lo)), Ty: base.Ty}
	case *ast.CallExpr:
		return e.call(x, sg)
	}
	sfail("unsupported expression %T", x)
	return Val{}
}

func (e *specEnv) objVal(o types.Object) Val {
	switch o := o.(type) {
	case *types.Const:
		return e.constVal(o)
	case *types.Var:
		// package-level variable: its initial value if the module never assigns it, else its global cell
		if gv := e.tr.G.globalOf(o); gv != nil {
			if c := e.tr.G.constGlobal(gv); c != nil {
				return e.tr.constVal(c)
			}
		}
		g := e.tr.globalRef(o)
		pl := e.tr.placeOfPtr(g, o.Type())
		return e.tr.loadPlace(pl, e.heap)
	case *types.Nil:
		return Val{Nil: true, Ty: types.Typ[types.UntypedNil]}
	}
	sfail("unsupported object %v", o)
	return Val{}
}

// selectField reads field `name` from a struct value, a pointer to struct, or a heap-resident by-value struct.
func (e *specEnv) selectField(base Val, name string) Val {
	tr := e.tr
	t := base.Ty
	isPtr := false
	if p, ok := t.Underlying().(*types.Pointer); ok {
		t = p.Elem()
		isPtr = true
	}
	if _, ok := t.Underlying().(*types.Struct); !ok {
		sfail("selector .%s on non-struct %v", name, base.Ty)
	}
	obj, index, _ := types.LookupFieldOrMethod(t, true, nil, name)
	if obj == nil {
		// unexported field of another package: search manually
		index = findFieldPath(t, name)
		if index == nil {
			sfail("no field %s in %v", name, t)
		}
	}
	cur := base
	curT := t
	for _, i := range index {
		st := curT.Underlying().(*types.Struct)
		f := st.Field(i)
		if isPtr || cur.Obj {
			pl := tr.fieldPlace(cur.T, curT, st, i)
			ft := f.Type()
			if isAggregate(ft) {
				cur = Val{T: pl.ref, Ty: ft, Obj: true}
			} else {
				cur = tr.loadPlace(pl, e.heap)
			}
			isPtr = false
		} else {
			srt := tr.C.structSort(curT, st)
			cur = Val{T: app(srt+"."+fieldName(st, i), cur.T), Ty: f.Type()}
		}
		curT = f.Type()
		if p, ok := curT.Underlying().(*types.Pointer); ok && i != index[len(index)-1] {
			curT = p.Elem()
			isPtr = true
		}
	}
	if _, isMap := cur.Ty.Underlying().(*types.Map); isMap && tr.pure == 0 && !strings.Contains(cur.T, "q_") {
		// type invariant of a map-typed field read in a specification (no bound variable involved): the
		// reference, if not nil, is a map of the field's type (see wf)
		tr.raw("(assert " + tr.wf(cur) + ")")
	}
	if tr.pure == 0 && !strings.Contains(cur.T, "q_") {
		// heap well-formedness (the fact every load in the code gets): a reference stored in the heap of
		// a state was allocated before that state -- stated for references a specification reads
		bound := e.curA
		if e.heap == e.old {
			bound = e.oldA
		}
		if bound != "" && bound != "0" {
			if f := tr.belowAlloc(cur, bound); f != "true" {
				tr.raw("(assert " + f + ")")
			}
			if _, isMap := cur.Ty.Underlying().(*types.Map); !isMap {
				// and it is a well-formed value of its type (slice bounds, interface nil-ness)
				if f := tr.wf(cur); f != "true" {
					tr.raw("(assert " + f + ")")
				}
			}
		}
	}
	return cur
}

func findFieldPath(t types.Type, name string) []int {
	st, ok := t.Underlying().(*types.Struct)
	if !ok {
		return nil
	}
	for i := 0; i < st.NumFields(); i++ {
		if st.Field(i).Name() == name {
			return []int{i}
		}
	}
	for i := 0; i < st.NumFields(); i++ {
		f := st.Field(i)
		if f.Embedded() {
			ft := f.Type()
			if p, ok := ft.Underlying().(*types.Pointer); ok {
				ft = p.Elem()
			}
			if sub := findFieldPath(ft, name); sub != nil {
				return append([]int{i}, sub...)
			}
		}
	}
	return nil
}

func isAggregate(t types.Type) bool {
	switch t.Underlying().(type) {
	case *types.Struct, *types.Array:
		return true
	}
	return false
}

func (e *specEnv) fieldAddr(base Val, name string) Val {
	tr := e.tr
	t := base.Ty
	if p, ok := t.Underlying().(*types.Pointer); ok {
		t = p.Elem()
	} else if !base.Obj {
		sfail("address of field of a non-pointer")
	}
	index := findFieldPath(t, name)
	if index == nil {
		sfail("no field %s in %v", name, t)
	}
	ref := base.T
	curT := t
	for k, i := range index {
		st := curT.Underlying().(*types.Struct)
		ft := st.Field(i).Type()
		if k == len(index)-1 {
			return Val{T: tr.addr(structKey(curT, st), fieldName(st, i), ref), Ty: types.NewPointer(ft)}
		}
		if isAggregate(ft) {
			ref = tr.addr(structKey(curT, st), fieldName(st, i), ref)
			curT = ft
		} else if p, ok := ft.Underlying().(*types.Pointer); ok {
			ref = tr.loadPlace(tr.fieldPlace(ref, curT, st, i), e.heap).T
			curT = p.Elem()
		}
	}
	return Val{}
}

func (e *specEnv) index(base, idx Val) Val {
	tr := e.tr
	switch u := base.Ty.Underlying().(type) {
	case *types.Slice:
		i := e.coerce(idx, tInt)
		if isAggregate(u.Elem()) {
			sfail("indexing slices of structs is not supported in specs")
		}
		es := tr.C.sortOf(u.Elem())
		arr := sel(tr.C.hget(e.heap, tr.C.elemKey(es)), app("s.arr", base.T))
		return Val{T: sel(arr, app("bvadd", app("s.off", base.T), to64(i))), Ty: u.Elem()}
	case *types.Array:
		i := e.coerce(idx, tInt)
		if base.Obj {
			es := tr.C.sortOf(u.Elem())
			arr := sel(tr.C.hget(e.heap, tr.C.elemKey(es)), base.T)
			return Val{T: sel(arr, to64(i)), Ty: u.Elem()}
		}
		return Val{T: sel(base.T, to64(i)), Ty: u.Elem()}
	case *types.Map:
		// Go semantics: the zero value for a nil map or an absent key
		k := e.coerce(idx, u.Key())
		dom, val, _ := tr.C.mapKeys(tr.C.sortOf(u.Key()), tr.C.sortOf(u.Elem()))
		present := and(not(eq(base.T, "0")), sel(sel(tr.C.hget(e.heap, dom), base.T), k.T))
		if e.inTrigger {
			return Val{T: sel(sel(tr.C.hget(e.heap, val), base.T), k.T), Ty: u.Elem()}
		}
		return Val{T: ite(present, sel(sel(tr.C.hget(e.heap, val), base.T), k.T), tr.C.zero(u.Elem())), Ty: u.Elem()}
	case *types.Basic:
		if isString(base.Ty) {
			i := e.coerce(idx, tInt)
			return Val{T: app("sat", base.T, to64(i)), Ty: types.Typ[types.Uint8]}
		}
	}
	sfail("cannot index %v", base.Ty)
	return Val{}
}

func to64(v Val) string {
	w := intWidth(v.Ty)
	if w == 64 {
		return v.T
	}
	if isUnsigned(v.Ty) {
		return fmt.Sprintf("((_ zero_extend %d) %s)", 64-w, v.T)
	}
	return fmt.Sprintf("((_ sign_extend %d) %s)", 64-w, v.T)
}

func (e *specEnv) binary(op token.Token, a, b Val) Val {
	if op == token.LAND {
		return Val{T: and(a.T, b.T), Ty: tBool}
	}
	if op == token.LOR {
		return Val{T: or(a.T, b.T), Ty: tBool}
	}
	if a.K != nil && b.K != nil {
		r := new(big.Int)
		switch op {
		case token.ADD:
			r.Add(a.K, b.K)
		case token.SUB:
			r.Sub(a.K, b.K)
		case token.MUL:
			r.Mul(a.K, b.K)
		case token.QUO:
			r.Quo(a.K, b.K)
		case token.REM:
			r.Rem(a.K, b.K)
		case token.SHL:
			r.Lsh(a.K, uint(b.K.Uint64()))
		case token.SHR:
			r.Rsh(a.K, uint(b.K.Uint64()))
		case token.EQL, token.NEQ, token.LSS, token.LEQ, token.GTR, token.GEQ:
			c := a.K.Cmp(b.K)
			res := map[token.Token]bool{token.EQL: c == 0, token.NEQ: c != 0, token.LSS: c < 0, token.LEQ: c <= 0, token.GTR: c > 0, token.GEQ: c >= 0}[op]
			return Val{T: strconv.FormatBool(res), Ty: tBool}
		default:
			sfail("unsupported constant op %v", op)
		}
		return Val{K: r, Ty: a.Ty}
	}
	if op == token.SHL || op == token.SHR {
		if a.K != nil {
			a = e.coerce(a, tInt)
		}
		if b.K != nil {
			b = e.coerce(b, a.Ty)
		}
		return Val{T: e.tr.shift(op == token.SHL, a, b), Ty: a.Ty}
	}
	if (a.K == nil && a.Ty != nil && isFloat(a.Ty)) || (b.K == nil && b.Ty != nil && isFloat(b.Ty)) {
		// floating-point comparison (exact IEEE semantics); an integer constant operand is converted
		ft := a.Ty
		if a.K != nil || !isFloat(a.Ty) {
			ft = b.Ty
		}
		w := intWidth(ft)
		lit := func(v Val) Val {
			if v.K == nil {
				return v
			}
			f, _ := new(big.Float).SetInt(v.K).Float64()
			if w == 32 {
				return Val{T: bvLit(bigFromU(uint64(math.Float32bits(float32(f)))), 32), Ty: ft}
			}
			return Val{T: bvLit(bigFromU(math.Float64bits(f)), 64), Ty: ft}
		}
		a, b = lit(a), lit(b)
		if !isFloat(a.Ty) || !isFloat(b.Ty) || intWidth(a.Ty) != intWidth(b.Ty) {
			sfail("operator %v on a float and %v / %v (convert explicitly)", op, a.Ty, b.Ty)
		}
		c := fpCompare(op, a.T, b.T, w)
		if c == "" {
			sfail("floating-point operator %v is not supported in specifications (comparisons only)", op)
		}
		return Val{T: c, Ty: tBool}
	}
	a, b = e.unify(a, b)
	if a.Nil && b.Nil {
		return Val{T: strconv.FormatBool(op == token.EQL), Ty: tBool}
	}
	switch op {
	case token.EQL, token.NEQ:
		t := e.tr.equal(a, b)
		if op == token.NEQ {
			t = not(t)
		}
		return Val{T: t, Ty: tBool}
	}
	if isBool(a.Ty) {
		sfail("unsupported boolean operator %v", op)
	}
	if isString(a.Ty) && isString(b.Ty) && op == token.ADD {
		return Val{T: app("sconcat", a.T, b.T), Ty: types.Typ[types.String]}
	}
	if !isInt(a.Ty) || !isInt(b.Ty) {
		sfail("operator %v on non-integers (%v, %v)", op, a.Ty, b.Ty)
	}
	if intWidth(a.Ty) != intWidth(b.Ty) || isUnsigned(a.Ty) != isUnsigned(b.Ty) {
		sfail("mismatched integer types %v and %v (convert explicitly)", a.Ty, b.Ty)
	}
	t, isCmp := arith(op, a.T, b.T, isUnsigned(a.Ty))
	if t == "" {
		sfail("unsupported operator %v", op)
	}
	if isCmp {
		return Val{T: t, Ty: tBool}
	}
	return Val{T: t, Ty: a.Ty}
}

func arith(op token.Token, a, b string, unsigned bool) (string, bool) {
	pick := func(s, u string) string {
		if unsigned {
			return u
		}
		return s
	}
	switch op {
	case token.ADD:
		return app("bvadd", a, b), false
	case token.SUB:
		return app("bvsub", a, b), false
	case token.MUL:
		return app("bvmul", a, b), false
	case token.QUO:
		return app(pick("bvsdiv", "bvudiv"), a, b), false
	case token.REM:
		return app(pick("bvsrem", "bvurem"), a, b), false
	case token.AND:
		return app("bvand", a, b), false
	case token.OR:
		return app("bvor", a, b), false
	case token.XOR:
		return app("bvxor", a, b), false
	case token.AND_NOT:
		return app("bvand", a, app("bvnot", b)), false
	case token.LSS:
		return app(pick("bvslt", "bvult"), a, b), true
	case token.LEQ:
		return app(pick("bvsle", "bvule"), a, b), true
	case token.GTR:
		return app(pick("bvsgt", "bvugt"), a, b), true
	case token.GEQ:
		return app(pick("bvsge", "bvuge"), a, b), true
	}
	return "", false
}

func (e *specEnv) call(x *ast.CallExpr, sg *SGo) Val {
	tr := e.tr
	// conversions
	if t, ok := e.isTypeExpr(x.Fun); ok && len(x.Args) == 1 {
		v := e.expr(x.Args[0], sg)
		if v.K != nil || v.Nil {
			return e.coerce(v, t)
		}
		return tr.convert(v, t)
	}
	name := ""
	if id, ok := x.Fun.(*ast.Ident); ok {
		name = id.Name
	}
	if se, ok := x.Fun.(*ast.SelectorExpr); ok {
		// package-qualified specification symbol (ghost map, ufunc, pred) of another package
		if id, ok := se.X.(*ast.Ident); ok {
			if _, shadow := e.names[id.Name]; !shadow {
				if p := e.importedPkg(id.Name); p != nil {
					n := se.Sel.Name
					if gm := tr.G.contracts.Ghosts[n]; gm != nil && gm.PkgPath == p.Path() {
						name = n
					} else if tr.G.contracts.UFuncs[p.Path()+"."+n] != nil || tr.G.contracts.Preds[p.Path()+"."+n] != nil {
						name = n
					}
				}
			}
		}
	}
	arg := func(i int) Val { return e.expr(x.Args[i], sg) }
	switch name {
	case "len", "cap":
		v := arg(0)
		switch u := v.Ty.Underlying().(type) {
		case *types.Slice:
			return Val{T: app("s."+name, v.T), Ty: tInt}
		case *types.Basic:
			if isString(v.Ty) {
				return Val{T: app("slen", v.T), Ty: tInt}
			}
		case *types.Map:
			_, _, ln := tr.C.mapKeys(tr.C.sortOf(u.Key()), tr.C.sortOf(u.Elem()))
			return Val{T: sel(tr.C.hget(e.heap, ln), v.T), Ty: tInt}
		case *types.Array:
			return Val{K: big.NewInt(u.Len()), Ty: types.Typ[types.UntypedInt]}
		}
		sfail("len/cap of %v", v.Ty)
	case "old":
		if e.old == nil {
			sfail("old() not available here")
		}
		n := *e
		n.heap = e.old
		n.curA = e.oldA
		if e.oldNames != nil {
			n.names = e.oldNames
		}
		return n.expr(x.Args[0], sg)
	case "fresh":
		v := arg(0)
		ref := v.T
		if _, ok := v.Ty.Underlying().(*types.Slice); ok {
			ref = app("s.arr", v.T)
		}
		if _, ok := v.Ty.Underlying().(*types.Interface); ok {
			ref = refOf(v) // the dynamic value (a pointer)
		}
		return Val{T: app(">=", ref, e.oldA), Ty: tBool}
	case "alive": // alive(x): the reference has been allocated by now (it is below the current allocation counter)
		v := arg(0)
		if e.curA == "" {
			sfail("alive() not available here")
		}
		return Val{T: app("<", refOf(v), e.curA), Ty: tBool}
	case "allocated": // allocated(x): reference exists in the pre-state
		v := arg(0)
		ref := v.T
		if _, ok := v.Ty.Underlying().(*types.Slice); ok {
			ref = app("s.arr", v.T)
		}
		return Val{T: app("<", ref, e.oldA), Ty: tBool}
	case "held":
		v := arg(0)
		return Val{T: sel(tr.C.hget(e.heap, tr.C.heldKey()), v.T), Ty: tBool}
	case "at": // at(s, i): element at ABSOLUTE index i of the backing array of slice s (s[k] == at(s, off(s)+k));
		// quantifying over absolute indices keeps arithmetic out of quantifier patterns
		s, i := arg(0), e.coerce(arg(1), tInt)
		st, ok := s.Ty.Underlying().(*types.Slice)
		if !ok {
			sfail("at(s, i) needs a slice")
		}
		es := tr.C.sortOf(st.Elem())
		return Val{T: sel(sel(tr.C.hget(e.heap, tr.C.elemKey(es)), app("s.arr", s.T)), i.T), Ty: st.Elem()}
	case "ref": // reference identity of a pointer, the backing array of a slice, or the dynamic value of an interface
		return Val{T: refOf(arg(0)), Ty: types.Typ[types.UnsafePointer]}
	case "released": // ghost: number of Unlock calls on a mutex so far
		v := arg(0)
		return Val{T: sel(tr.C.hget(e.heap, tr.C.relKey()), v.T), Ty: tInt}
	case "ite":
		c, a, b := arg(0), arg(1), arg(2)
		a, b = e.unify(a, b)
		if a.K != nil {
			a, b = e.coerce(a, tInt), e.coerce(b, tInt)
		}
		return Val{T: ite(c.T, a.T, b.T), Ty: a.Ty}
	case "in": // in(k, m): key present in map
		k, m := arg(0), arg(1)
		mt, ok := m.Ty.Underlying().(*types.Map)
		if !ok {
			sfail("in(k, m) needs a map")
		}
		k = e.coerce(k, mt.Key())
		dom, _, _ := tr.C.mapKeys(tr.C.sortOf(mt.Key()), tr.C.sortOf(mt.Elem()))
		if e.inTrigger { // patterns may not contain connectives: the bare domain lookup
			return Val{T: sel(sel(tr.C.hget(e.heap, dom), m.T), k.T), Ty: tBool}
		}
		return Val{T: and(not(eq(m.T, "0")), sel(sel(tr.C.hget(e.heap, dom), m.T), k.T)), Ty: tBool}
	case "typeis": // typeis(x, T): dynamic type of interface value x is T
		v := arg(0)
		t, ok := e.isTypeExpr(x.Args[1])
		if !ok {
			sfail("typeis needs a type")
		}
		return Val{T: eq(app("i.typ", v.T), strconv.Itoa(tr.C.typeID(t))), Ty: tBool}
	case "dyn": // dyn(x, T): the dynamic value of interface x as T (meaningful when typeis(x,T))
		v := arg(0)
		t, ok := e.isTypeExpr(x.Args[1])
		if !ok {
			sfail("dyn needs a type")
		}
		return tr.unboxIface(v.T, t)
	case "le16", "le32", "le64": // little-endian read of bytes s[i..]
		s, i := arg(0), e.coerce(arg(1), tInt)
		n := map[string]int{"le16": 2, "le32": 4, "le64": 8}[name]
		es := "(_ BitVec 8)"
		arr := sel(tr.C.hget(e.heap, tr.C.elemKey(es)), app("s.arr", s.T))
		var parts []string
		for k := n - 1; k >= 0; k-- {
			parts = append(parts, sel(arr, app("bvadd", app("s.off", s.T), app("bvadd", i.T, bvI(int64(k), 64)))))
		}
		ty := map[int]types.Type{2: types.Typ[types.Uint16], 4: types.Typ[types.Uint32], 8: types.Typ[types.Uint64]}[n]
		return Val{T: app("concat", parts...), Ty: ty}
	case "sameslice":
		a, b := arg(0), arg(1)
		return Val{T: eq(a.T, b.T), Ty: tBool}
	case "arr": // arr(s): identity of the backing array of slice s
		a := arg(0)
		return Val{T: app("s.arr", a.T), Ty: types.Typ[types.UnsafePointer]}
	case "off":
		a := arg(0)
		return Val{T: app("s.off", a.T), Ty: tInt}
	case "isnil":
		a := arg(0)
		return Val{T: tr.equal(a, Val{T: tr.C.zero(a.Ty), Ty: a.Ty}), Ty: tBool}
	}
	// ghost maps
	if gm := tr.G.contracts.Ghosts[name]; gm != nil && len(x.Args) == 1 {
		key, vt := e.ghostKey(gm)
		return Val{T: sel(tr.C.hget(e.heap, key), refOf(arg(0))), Ty: vt}
	}
	// predicates
	if p := tr.G.lookupPred(e.pkg, name); p != nil {
		if len(p.Params) != len(x.Args) {
			sfail("pred %s: wrong number of arguments", name)
		}
		if e.depth > 20 {
			sfail("pred %s: recursion too deep", name)
		}
		pe := &specEnv{tr: tr, pkg: tr.G.typesPkg[p.PkgPath], names: map[string]Val{}, heap: e.heap, old: e.old, oldA: e.oldA, curA: e.curA, results: e.results, resName: e.resName, depth: e.depth + 1}
		if pe.pkg == nil {
			pe.pkg = e.pkg
		}
		for i, pp := range p.Params {
			pt := pe.resolveType(pp.Type)
			pe.names[pp.Name] = e.coerce(arg(i), pt)
		}
		return pe.eval(p.Body)
	}
	if u := tr.G.lookupUFunc(e.pkg, name); u != nil {
		var args []string
		var sorts []string
		ue := &specEnv{tr: tr, pkg: tr.G.typesPkg[u.PkgPath], names: map[string]Val{}} // types resolve in the declaring package
		if ue.pkg == nil {
			ue.pkg = e.pkg
		}
		for i, a := range u.Args {
			at := ue.resolveType(a)
			args = append(args, e.coerce(arg(i), at).T)
			sorts = append(sorts, tr.C.sortOf(at))
		}
		rt := ue.resolveType(u.Ret)
		fn := "uf_" + mangle(u.PkgPath) + "_" + u.Name
		tr.C.declare(fn, fmt.Sprintf("(declare-fun %s (%s) %s)", fn, strings.Join(sorts, " "), tr.C.sortOf(rt)))
		if len(args) == 0 {
			return Val{T: fn, Ty: rt}
		}
		return Val{T: app(fn, args...), Ty: rt}
	}
	// a Go function or method, evaluated as a pure term
	if fobj, recv := e.resolveGoFunc(x.Fun, sg); fobj != nil {
		fn := tr.G.prog.FuncValue(fobj)
		if fn == nil {
			sfail("no SSA for %s", fobj.FullName())
		}
		var args []Val
		if recv != nil {
			args = append(args, *recv)
		}
		sig := fobj.Type().(*types.Signature)
		for i := range x.Args {
			a := arg(i)
			if i < sig.Params().Len() {
				a = e.coerce(a, sig.Params().At(i).Type())
			}
			args = append(args, a)
		}
		return e.goCall(fn, args)
	}
	sfail("unknown function %s in spec", exprString(x.Fun))
	return Val{}
}

// refOf: the reference a ghost map is keyed by.
func refOf(v Val) string {
	switch v.Ty.Underlying().(type) {
	case *types.Slice:
		return app("s.arr", v.T)
	case *types.Interface:
		return app("i.val", v.T)
	}
	return v.T
}

// ghostKey: heap key and value type of a declared ghost map.
func (e *specEnv) ghostKey(gm *GhostMap) (string, types.Type) {
	ge := &specEnv{tr: e.tr, pkg: e.tr.G.typesPkg[gm.PkgPath], names: map[string]Val{}}
	if ge.pkg == nil {
		ge.pkg = e.pkg
	}
	vt := ge.resolveType(gm.Type)
	key := "G_" + gm.Name
	e.tr.C.regHeap(key, "(Array Int "+e.tr.C.sortOf(vt)+")")
	return key, vt
}

func exprString(x ast.Expr) string {
	switch x := x.(type) {
	case *ast.Ident:
		return x.Name
	case *ast.SelectorExpr:
		return exprString(x.X) + "." + x.Sel.Name
	}
	return fmt.Sprintf("%T", x)
}
