; engine lemma bvshift: the index shift of a bulk copy (append(s, t...), copy(d, s)) stays inside the source.
; For 0 <= a, b, n, o < 2^48 and a+b <= k < a+b+n:  o <= o + (k - (a+b)) < o + n   (64-bit two's complement).
; Expected answer: unsat. Proved in the thorough tier of every check that uses the lemma.
(set-logic QF_BV)
(declare-const k (_ BitVec 64))
(declare-const a (_ BitVec 64))
(declare-const b (_ BitVec 64))
(declare-const n (_ BitVec 64))
(declare-const o (_ BitVec 64))
(define-fun lim () (_ BitVec 64) (_ bv281474976710656 64))
(define-fun small ((x (_ BitVec 64))) Bool (and (bvsle (_ bv0 64) x) (bvslt x lim)))
(assert (and (small a) (small b) (small n) (small o)))
(assert (bvsle (bvadd a b) k))
(assert (bvslt k (bvadd (bvadd a b) n)))
(assert (not (and (bvsle o (bvadd o (bvsub k (bvadd a b)))) (bvslt (bvadd o (bvsub k (bvadd a b))) (bvadd o n)))))
(check-sat)
