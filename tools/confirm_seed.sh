#!/bin/bash
# confirm_seed.sh <worktree> <k> : confirm a sub-agent's seeded change in its scratch worktree:
#   demo passes without the patch, patch applies and builds, existing tests pass with it, demo fails with it.
export GOFLAGS=-mod=mod GOPROXY=off GOSUMDB=off GOTOOLCHAIN=local
wt=$1; k=$2; sd=$wt/_seeded/$k
cd $wt || exit 2
git checkout -q -- . ; git clean -fdq -e _seeded
first=$(head -1 $sd/demo_test.go.txt)
# target dir: first path-like token ending in / or a known package dir mentioned in the first line
dir=$(echo "$first" | grep -oE '(uasc|uacp|ua|uapolicy|server|monitor|tests/go|root package|package `?opcua`?|\./)' | head -1)
case "$dir" in uasc|uacp|ua|uapolicy|server|monitor) d=$dir;; *) d=.;; esac
[ -n "$3" ] && d=$3
run=$(echo "$first" | grep -oE "\-run[ =]+['\"]?[A-Za-z0-9_^$|]+" | head -1 | sed -E "s/-run[ =]+['\"]?//")
cp $sd/demo_test.go.txt $d/zz_seed_demo_test.go
echo "== demo dir=$d run=$run"
go test -vet=off -count=1 -run "$run" ./$d > /tmp/seed_$$.base 2>&1; base=$?
git apply $sd/patch.diff || { echo "PATCH DOES NOT APPLY"; exit 1; }
go build ./... || { echo "BUILD FAILS"; exit 1; }
go test -vet=off -count=1 -run "$run" ./$d > /tmp/seed_$$.mut 2>&1; mut=$?
rm -f $d/zz_seed_demo_test.go
go test -vet=off -count=1 -skip 'TestResolveEndpoint' ./... > /tmp/seed_$$.suite 2>&1; suite=$?
grep -E "^(FAIL|---)" /tmp/seed_$$.suite | head -5
git checkout -q -- . ; git clean -fdq -e _seeded
echo "RESULT wt=$wt k=$k demo_without_patch_exit=$base demo_with_patch_exit=$mut suite_with_patch_exit=$suite"
[ $base -eq 0 ] && [ $mut -ne 0 ] && [ $suite -eq 0 ] && echo CONFIRMED || { echo NOT-CONFIRMED; tail -5 /tmp/seed_$$.base /tmp/seed_$$.mut; }
rm -f /tmp/seed_$$.*
