#!/bin/bash
# run_thorough.sh: every claimed check in the thorough tier, one after the other; summary in tools/thorough.txt
cd /verif; out=tools/thorough.txt; : > $out
for p in $(python3 -c "import json;print(' '.join(c['property_id'] for c in json.load(open('MANIFEST.json'))['checks']))"); do
  s=$(date +%s); r=$(./check $p thorough 2>&1); e=$?; d=$(( $(date +%s) - s ))
  echo "$p exit=$e ${d}s $(echo "$r" | grep -E 'govc: C' | tail -1 | cut -c1-160)" >> $out
  echo "$r" | grep -E "^VIOLATION|failed:|lemma" | head -5 >> $out
done
echo done >> $out
