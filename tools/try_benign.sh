#!/bin/bash
# try_benign.sh <benign-dir-name> <PROP>... : apply a behaviour-preserving change to /repo, run the checks, undo.
# Every check must exit 0 (a non-zero exit on such a change is a false alarm of the machinery).
s=/verif/benign/$1; shift
git -C /repo apply $s/patch.diff || { echo "benign=$(basename $s) DOES-NOT-APPLY"; exit 2; }
for p in "$@"; do
  cp /verif/evidence/$p.json /tmp/tryb_$$.ev 2>/dev/null
  ( cd /verif && ./check $p quick ) > /tmp/tryb_$$.out 2> /tmp/tryb_$$.err; rc=$?
  [ -f /tmp/tryb_$$.ev ] && cp /tmp/tryb_$$.ev /verif/evidence/$p.json
  echo "benign=$(basename $s) prop=$p exit=$rc"; grep -E "^(VIOLATION|KNOWN)" /tmp/tryb_$$.out; [ $rc -ne 0 ] && grep -E "failed:|govc:|undecided|error" /tmp/tryb_$$.err | head -6
done
git -C /repo apply -R $s/patch.diff
rm -f /tmp/tryb_$$.*
