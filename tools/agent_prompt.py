#!/usr/bin/env python3
# prints the prompt handed to a mutant-writing sub-agent for property <id> (nothing from /verif except the property text)
import json,sys
pid=sys.argv[1]; n=sys.argv[2] if len(sys.argv)>2 else "2"
p=[json.loads(l) for l in open('/verif/properties.jsonl') if json.loads(l)['id']==pid][0]
print(f"""You are helping to evaluate a verification tool. Your job: write {n} DIFFERENT realistic code changes ("seeded defects") to the Go library gopcua/opcua, each of which breaks the semantic property below while the library still compiles and its existing test suite still passes.

Work ONLY inside the git worktree {'/tmp/wt/'+pid} (a scratch checkout of the repository). Do not read or touch /repo or /verif. Every Go command needs: export GOFLAGS=-mod=mod GOPROXY=off GOSUMDB=off GOTOOLCHAIN=local  (no network is available).

PROPERTY {p['id']}: {p['title']}
{p['statement']}
Quantified over: {p['quantifier']['text']}
Relevant files: {', '.join(p['anchors']['files'])}

Requirements for each change:
- It is a small, realistic edit of NON-test .go files (the kind of regression a refactoring or 'optimisation' could introduce), not a change of test files, and must not add new files to the library.
- It needs something specific to manifest: a particular input value, boundary, multi-step sequence, unusual configuration, a specific interleaving, or two cooperating sites that each look fine alone. NOT something that ordinary use or the existing tests expose at once.
- With the change applied: `go build ./...` succeeds and the existing tests still pass: run `go test -vet=off -count=1 ./ua/... ./uacp/... ./uasc/... ./uapolicy/... ./server/... ./monitor/... ./errors/... ./stats/... .` (the root package tests take a few minutes; run them too) .
- Provide a demonstration: a new Go test file (in-package _test.go is fine) or small program that FAILS with the change and PASSES on the unchanged code. Verify both yourself.

Deliverables, written under {'/tmp/wt/'+pid}/_seeded/<k>/ for k=1..{n}:
  patch.diff   (output of `git diff` for the library change only, applies with `git apply` at the worktree root on the unchanged tree)
  demo_test.go.txt (the demonstration test source; state in its first comment line which directory/package it must be copied into and the `go test -run` command)
  meta.json    {{"property":"{p['id']}","what":"one paragraph: what the change does","needs":"what specific input/sequence/interleaving is needed to manifest","ran":"the commands you ran and their outcome"}}
When you have produced each patch, restore the worktree to the unchanged state (git checkout -- . ; remove demo files) but keep the _seeded directory. Finish with a short summary listing the patches. Keep the changes independent of each other (each patch applies alone to the unchanged tree).""")
