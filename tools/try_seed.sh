#!/bin/bash
# try_seed.sh <seeded-dir-name> <PROP> [tier] : apply a seeded change to /repo, run the check, undo.
# The evidence file of the property is saved and restored (evidence must come from the unchanged tree).
s=/verif/seeded/$1; p=$2; t=${3:-quick}
git -C /repo apply $s/patch.diff || exit 2
cp /verif/evidence/$p.json /tmp/try_$$.ev 2>/dev/null
( cd /verif && ./check $p $t ) > /tmp/try_$$.out 2> /tmp/try_$$.err; rc=$?
git -C /repo apply -R $s/patch.diff
[ -f /tmp/try_$$.ev ] && cp /tmp/try_$$.ev /verif/evidence/$p.json
echo "seed=$1 prop=$p exit=$rc"; grep -E "^(VIOLATION|KNOWN)" /tmp/try_$$.out; grep -E "failed:|govc:" /tmp/try_$$.err | head -${4:-8}
rm -f /tmp/try_$$.*
