#!/bin/bash
# try_seed.sh <seeded-dir-name> <PROP> [tier] : apply a seeded change to /repo, run the check, undo.
s=/verif/seeded/$1; p=$2; t=${3:-quick}
git -C /repo apply $s/patch.diff || exit 2
( cd /verif && ./check $p $t ) > /tmp/try_$$.out 2> /tmp/try_$$.err; rc=$?
git -C /repo apply -R $s/patch.diff
echo "seed=$1 prop=$p exit=$rc"; grep -E "^(VIOLATION|KNOWN)" /tmp/try_$$.out; grep -E "failed:|govc:" /tmp/try_$$.err | head -${4:-8}
rm -f /tmp/try_$$.*
