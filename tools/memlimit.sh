#!/bin/sh
# run a replay test binary under a 4 GiB address-space limit (models may ask for huge allocations)
ulimit -v 4194304
exec "$@"
