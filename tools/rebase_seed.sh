#!/bin/bash
# rebase_seed.sh <seed>: re-create a seeded patch on top of /repo HEAD (after fix: commits changed its context)
# in a scratch worktree, using 3-way merge; keeps the sub-agent's original as patch.orig.diff.
s=/verif/seeded/$1; wt=/tmp/wt/rebase_$$
git -C /repo worktree add -q --detach $wt HEAD || exit 2
cd $wt
if git apply --3way $s/patch.diff 2>/tmp/rb_$$.err; then
  if git diff --name-only --diff-filter=U | grep -q .; then echo "CONFLICT in $1"; cat /tmp/rb_$$.err; rc=1; else
    [ -f $s/patch.orig.diff ] || cp $s/patch.diff $s/patch.orig.diff
    git diff HEAD > $s/patch.diff; echo "rebased $1: $(git diff HEAD --stat | tail -1)"; rc=0; fi
else echo "3way failed for $1"; cat /tmp/rb_$$.err; rc=1; fi
cd /; git -C /repo worktree remove --force $wt; rm -f /tmp/rb_$$.err; exit $rc
