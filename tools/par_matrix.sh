#!/bin/bash
# par_matrix.sh <seeded|benign> <workers> : run every stored change against its property's quick check, in parallel,
# each worker in its own scratch worktree of /repo and its own scratch copy of the verifier's data (VERIF_REPO /
# VERIF_DIR), so that /repo and /verif/evidence are not touched. Output: tools/<kind>_matrix.txt
kind=$1; W=${2:-3}; cd /verif || exit 2
export GOFLAGS=-mod=mod GOPROXY=off GOSUMDB=off GOTOOLCHAIN=local
claimed=$(python3 -c "import json;print(' '.join(c['property_id'] for c in json.load(open('MANIFEST.json'))['checks']))")
jobs=/tmp/pm_jobs_$$.txt; : > $jobs
for d in $kind/*/; do s=$(basename $d); p=${s%%-*}
  props="$p"; [ $kind = seeded ] && props="$p $(grep "^$s " tools/seed_extra.txt 2>/dev/null | cut -d' ' -f2-)"
  for q in $props; do echo " $claimed " | grep -q " $q " && echo "$s $q" >> $jobs; done
done
worker() { w=$1; wt=/tmp/pm_wt_$w; vd=/tmp/pm_vd_$w
  git -C /repo worktree add -q --detach $wt HEAD || exit 2
  mkdir -p $vd/bin $vd/tools $vd/evidence; cp -r contracts lemmas known_findings.txt $vd/; cp bin/govc $vd/bin/; cp tools/memlimit.sh $vd/tools/
  awk -v w=$w -v W=$W 'NR%W==w%W' $jobs | while read s q; do
    if ! git -C $wt apply --check /verif/$kind/$s/patch.diff 2>/dev/null; then echo "$s $q does-not-apply"; continue; fi
    git -C $wt apply /verif/$kind/$s/patch.diff
    r=$(VERIF_REPO=$wt VERIF_DIR=$vd $vd/bin/govc check $q quick 2>&1); rc=$?
    git -C $wt apply -R /verif/$kind/$s/patch.diff
    f=$(echo "$r" | grep "failed:" | head -2 | sed 's/.*failed: //; s/ — obligation not discharged: solver answer / [/; s/ — .*//; s/$/]/' | tr '\n' ';')
    u=$(echo "$r" | grep -c "^UNDECIDED")
    echo "$s $q exit=$rc undecided=$u $f"
  done > /tmp/pm_out_$w.txt
  git -C /repo worktree remove --force $wt; rm -rf $vd
}
for w in $(seq 1 $W); do worker $w & done; wait
git -C /repo worktree prune
cat /tmp/pm_out_*.txt | sort > tools/${kind}_matrix.txt; rm -f /tmp/pm_out_*.txt $jobs
wc -l tools/${kind}_matrix.txt
