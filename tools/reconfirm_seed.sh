#!/bin/bash
# reconfirm_seed.sh <seed> <pkgdir> <run-regex>: confirm a stored seeded change against /repo HEAD in a scratch worktree.
export GOFLAGS=-mod=mod GOPROXY=off GOSUMDB=off GOTOOLCHAIN=local
s=/verif/seeded/$1; d=$2; run=$3; wt=/tmp/wt/rc_$$
git -C /repo worktree add -q --detach $wt HEAD || exit 2
cd $wt; cp $s/demo_test.go.txt $d/zz_seed_demo_test.go
go test -vet=off -count=1 -run "$run" ./$d > /tmp/rc_$$.base 2>&1; base=$?
git apply $s/patch.diff || { echo "PATCH DOES NOT APPLY"; cd /; git -C /repo worktree remove --force $wt; exit 1; }
go build ./... || echo BUILD-FAILS
go test -vet=off -count=1 -run "$run" ./$d > /tmp/rc_$$.mut 2>&1; mut=$?
rm -f $d/zz_seed_demo_test.go
go test -vet=off -count=1 -skip 'TestResolveEndpoint' ./... > /tmp/rc_$$.suite 2>&1; suite=$?
echo "RESULT seed=$1 demo_without_patch_exit=$base demo_with_patch_exit=$mut suite_with_patch_exit=$suite"
[ $base -eq 0 ] && [ $mut -ne 0 ] && [ $suite -eq 0 ] && echo CONFIRMED || { echo NOT-CONFIRMED; tail -4 /tmp/rc_$$.base; tail -4 /tmp/rc_$$.mut; grep -E "^(FAIL|---)" /tmp/rc_$$.suite | head; }
cd /; git -C /repo worktree remove --force $wt; rm -f /tmp/rc_$$.*
