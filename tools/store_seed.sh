#!/bin/bash
# store_seed.sh <PROP> <k-in-worktree> <n-in-seeded> : copy a confirmed seeded change from /tmp/wt/<PROP>/_seeded/<k> to /verif/seeded/<PROP>-<n>
p=$1; k=$2; n=$3; d=/verif/seeded/$p-$n; mkdir -p $d
cp /tmp/wt/$p/_seeded/$k/patch.diff /tmp/wt/$p/_seeded/$k/demo_test.go.txt $d/
python3 - $p $k $d <<'PY'
import json,sys
p,k,d=sys.argv[1:]
m=json.load(open(f'/tmp/wt/{p}/_seeded/{k}/meta.json'))
m['confirmed_by_me']="tools/confirm_seed.sh in the scratch worktree: demo passes without the patch, patch applies and `go build ./...` succeeds, demo fails with the patch, `go test -vet=off -count=1 -skip TestResolveEndpoint ./...` passes with the patch"
json.dump(m,open(d+'/meta.json','w'),indent=1)
PY
git -C /repo apply --check $d/patch.diff && echo "$p-$n applies"
