#!/usr/bin/env python3
# prints the prompt handed to a sub-agent that writes BENIGN (behaviour-preserving) changes near the code of the given
# properties; used to measure false alarms of the checks (nothing from /verif except the property texts)
import json,sys
wt=sys.argv[1]; pids=sys.argv[2:]
ps=[json.loads(l) for l in open('/verif/properties.jsonl')]
ps=[p for p in ps if p['id'] in pids]
txt="\n\n".join(f"PROPERTY {p['id']}: {p['title']}\n{p['statement']}\nRelevant files: {', '.join(p['anchors']['files'])}\nMechanism: "+"; ".join(m['name']+' at '+m['where'] for m in p['anchors'].get('mechanism',[])) for p in ps)
print(f"""You are helping to evaluate a verification tool for false alarms. Your job: write behaviour-preserving code changes (refactorings a maintainer could plausibly commit) to the Go library gopcua/opcua, in the functions that implement the properties listed below. Each change must keep every listed property TRUE and keep the observable behaviour of the library the same.

Work ONLY inside the git worktree {wt} (a scratch checkout of the repository). Do not read or touch /repo or /verif. Never use git stash. Every Go command needs: export GOFLAGS=-mod=mod GOPROXY=off GOSUMDB=off GOTOOLCHAIN=local  (no network is available).

{txt}

For EACH property above write 2 different changes (so {2*len(ps)} patches in total). Spread over these kinds, each kind used several times overall:
 (a) rename local variables / reorder independent statements / hoist or sink a declaration;
 (b) extract a few lines into a new unexported helper function in the same file, or inline a small helper at its call site;
 (c) restructure control flow without changing results: early return instead of else, switch instead of if-chain, index loop <-> range loop, merged or split conditions;
 (d) change something unobservable: wording of a debug/log message, an added debug log line, a comment, an equivalent constant expression (e.g. 1<<13 for 8192), an equivalent but differently written bounds check;
 (e) a harmless strengthening: an additional (redundant) validation that never fires on inputs that were accepted before, an extra nil check, a defensive copy.
Requirements: only NON-test .go files change, no new files, exported API unchanged; `go build ./...` succeeds and `go test -vet=off -count=1 -skip TestResolveEndpoint ./ua/... ./uacp/... ./uasc/... ./uapolicy/... ./server/... ./monitor/... ./errors/... ./stats/... .` passes (TestResolveEndpoint needs DNS and fails here even on unchanged code). Each patch touches the body of at least one function named in the 'Mechanism' lines (or a function it directly calls) and changes between 3 and 40 lines.

Deliverables under {wt}/_benign/<PROPERTY>-<k>/ for k=1..2: patch.diff (output of `git diff`, applies alone with `git apply` on the unchanged tree) and meta.json {{"property":"<id>","kind":"a..e","what":"one sentence","why_preserving":"one sentence"}}. After producing each patch restore the worktree (git checkout -- .) but keep the _benign directory. Run the test suite at least once per package you touched with the patch applied. Finish with a one-line-per-patch summary.""")
