#!/bin/bash
# seed_matrix.sh: run every stored seeded change against the check of its property (and the extra checks
# listed in tools/seed_extra.txt as "<seed> <PROP>"), one at a time; writes tools/seed_matrix.txt
cd /verif; out=tools/seed_matrix.txt; : > $out
claimed=$(python3 -c "import json;print(' '.join(c['property_id'] for c in json.load(open('MANIFEST.json'))['checks']))")
for d in seeded/*/; do s=$(basename $d); p=${s%-*}
  props="$p $(grep "^$s " tools/seed_extra.txt 2>/dev/null | cut -d' ' -f2-)"
  for q in $props; do
    echo " $claimed " | grep -q " $q " || { echo "$s $q not-claimed" >> $out; continue; }
    if ! git -C /repo apply --check /verif/$d/patch.diff 2>/dev/null; then echo "$s $q PATCH-DOES-NOT-APPLY" >> $out; continue; fi
    r=$(tools/try_seed.sh $s $q 2>&1); e=$(echo "$r" | grep -o "exit=[0-9]*" | head -1)
    f=$(echo "$r" | grep "failed:" | head -2 | sed 's/.*failed: //; s/ — .*//' | tr '\n' ';')
    echo "$s $q $e $f" >> $out
  done
done
git -C /repo status --short | grep -v "^??" && echo "REPO DIRTY" >> $out
echo done >> $out
