#!/bin/bash
# benign_matrix.sh : every behaviour-preserving change under /verif/benign against its property's quick check.
# Output: tools/benign_matrix.txt (one line per change: exit code, UNDECIDED / VIOLATION lines if any).
cd /verif || exit 2
out=tools/benign_matrix.txt; : > $out
for d in benign/*/; do
  n=$(basename $d); p=${n%%-*}
  git -C /repo apply --check /verif/$d/patch.diff 2>/dev/null || { echo "$n $p does-not-apply" >> $out; continue; }
  r=$(tools/try_benign.sh $n $p 2>&1)
  rc=$(echo "$r" | grep -o "exit=[0-9]*" | head -1)
  und=$(echo "$r" | grep -c "undecided")
  vio=$(echo "$r" | grep "^VIOLATION" | sed 's/.*replay=[^ ]*\/\([^ /]*\)\.txt/\1/' | tr '\n' ';')
  echo "$n $p $rc undecided=$und $vio" >> $out
done
cat $out
