#!/usr/bin/env python3
"""Regenerates /verif/MANIFEST.json from tools/claims.json (claimed checks) and
tools/not_applicable.json (reasons); every property in properties.jsonl must be in exactly one."""
import json, subprocess, sys

V = '/verif'
props = [json.loads(l)['id'] for l in open(f'{V}/properties.jsonl')]
claims = json.load(open(f'{V}/tools/claims.json'))
na = json.load(open(f'{V}/tools/not_applicable.json'))
for p in props:
    assert (p in claims) != (p in na), f'{p} must be claimed or not applicable, not both/neither'
try:
    commits = subprocess.check_output(['git', '-C', '/repo', 'log', '--format=%H %s', '5effd8a..HEAD'], text=True).strip().split('\n')
except Exception:
    commits = []
hook_commits = [c.split()[0] for c in commits if c and not c.split(' ', 1)[1].startswith('fix:')]
checks = []
for p in props:
    if p not in claims:
        continue
    c = claims[p]
    checks.append({
        'property_id': p,
        'quick_cmd': f'./check {p} quick',
        'thorough_cmd': f'./check {p} thorough',
        'evidence_file': f'/verif/evidence/{p}.json',
        'replay_cmd_template': 'cat {path}   # the replay file names the failed obligation and gives the go test -overlay command that re-runs the counterexample on /repo',
        'engine': 'govc',
        'level_claimed': {'category': 'proof', 'text': c['text'], 'design_ref': f'DESIGN.md section 10 ({p}) and section 13'},
        'level_note': c['note'],
        'technique': c.get('technique', 'contract-based deductive verification: weakest-precondition style VCs over go/ssa of the real functions, contracts as //@ comments in verif-tagged files, discharged by z3/cvc5'),
    })
m = {
    'version': 1,
    'setup_cmd': 'cd /verif/cmd/govc && GOFLAGS=-mod=mod GOPROXY=off GOSUMDB=off GOTOOLCHAIN=local go build -o /verif/bin/govc .',
    'hooks': {
        'guard': 'verif',
        'enable': 'go build -tags verif (the verif-tagged files /repo/*/verif_contracts.go hold contracts as //@ comments plus lemma harness functions; no production code path changes)',
        'baseline_off_cmd': 'cd /repo && go test -mod=mod -json -vet=off -count=1 -timeout 25m ./...',
        'source_commits': hook_commits,
        'add_only': True,
    },
    'engines': [{
        'name': 'govc', 'path': '/verif/cmd/govc', 'serves_properties': [c['property_id'] for c in checks],
        'kind_free_text': 'VC generator written for this task: loads /repo\'s working tree with -tags verif (go/packages + go/ssa, x/tools v0.29.0), reads contracts from //@ comments, emits one SMT-LIB script per obligation (exact bit-vector integers, field-granular heap), races z3 5.1 / z3 4.8.12 / cvc5 1.0; failed obligations are replayed on the real code with go test -overlay',
    }],
    'checks': checks,
    'not_applicable': [{'property_id': p, 'reason': na[p]} for p in props if p in na],
    'notes': 'Exit codes of every check: 0 held (KNOWN-FINDING lines possible), 1 with VIOLATION lines, 2 infrastructure/vacuity error. Known findings: /verif/known_findings.txt. Seeded changes used to test the checks: /verif/seeded/.',
}
json.dump(m, open(f'{V}/MANIFEST.json', 'w'), indent=1)
print('checks:', len(checks), 'not applicable:', len(m['not_applicable']))
