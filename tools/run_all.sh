#!/bin/bash
# run_all.sh [tier]: run every claimed check on /repo as it is, validate evidence; summary per property.
cd /verif; t=${1:-quick}; rc=0
for p in $(python3 -c "import json;print(' '.join(c['property_id'] for c in json.load(open('MANIFEST.json'))['checks']))"); do
  s=$(date +%s); out=$(./check $p $t 2>&1); e=$?; d=$(( $(date +%s) - s ))
  v=$(python3-vt -c "
import json,jsonschema
try:
  ev=json.load(open('/verif/evidence/$p.json')); jsonschema.validate(ev,json.load(open('/root/.vp/EVIDENCE.schema.json')))
  c=ev['coverage']; print('evidence-ok' if c['obligations']==c['discharged'] and ev['tier']=='$t' else 'EVIDENCE-MISMATCH')
except Exception as ex: print('EVIDENCE-INVALID', str(ex)[:80])")
  echo "$p exit=$e ${d}s $v | $(echo "$out" | grep -E 'govc: C' | tail -1 | cut -c1-150)"
  echo "$out" | grep -E "^(VIOLATION|KNOWN)"
  [ $e -ne 0 ] && rc=1
done
exit $rc
